#!/usr/bin/env python3
"""Seeded-change bookkeeping.

  seed.py verify <seed-id> <property> <worktree>   re-confirm a sub-agent's change in its scratch worktree
                                                   (suite passes with it; demo fails with it, passes without)
                                                   and copy it to /verif/seeded/<seed-id>/
  seed.py run <seed-id> [Cxx ...]                  apply the patch to /repo, run the quick checks (default: the
                                                   seed's property), undo the patch; record results in meta.json
"""
import json, os, shutil, subprocess, sys, time

ROOT = os.path.dirname(os.path.dirname(os.path.abspath(__file__)))
SEEDED = os.path.join(ROOT, "seeded")
ENV = dict(os.environ, CARGO_NET_OFFLINE="true", RUSTFLAGS="--cap-lints warn")


def sh(cmd, cwd=None, timeout=1800):
    r = subprocess.run(cmd, cwd=cwd, shell=True, stdout=subprocess.PIPE, stderr=subprocess.STDOUT, text=True, env=ENV, timeout=timeout)
    return r.returncode, r.stdout


def suite(wt):
    rc, out = sh("cargo test --workspace --no-fail-fast --offline 2>&1 | grep -E '^test result|FAILED|panicked' ", cwd=wt)
    ok = "FAILED" not in out and out.count("test result: ok") >= 3
    return ok, out.strip()


def demo(wt, features):
    shutil.copy(os.path.join(wt, "SEED", "demo.rs"), os.path.join(wt, "tests", "seed_demo.rs"))
    try:
        feat = ("--features " + features) if features else ""
        rel = "--release" if os.path.exists(os.path.join(wt, "SEED", "RELEASE")) else ""
        rc, out = sh("cargo test --offline --test seed_demo %s %s 2>&1 | tail -25" % (rel, feat), cwd=wt)
        rc2 = 0
        if "test result: ok" in out and "FAILED" not in out:
            return True, out
        # some demos only bite without overflow checks
        return False, out
    finally:
        os.remove(os.path.join(wt, "tests", "seed_demo.rs"))


def detect_features(wt):
    src = open(os.path.join(wt, "SEED", "demo.rs")).read()
    notes = open(os.path.join(wt, "SEED", "notes.md")).read() if os.path.exists(os.path.join(wt, "SEED", "notes.md")) else ""
    f = []
    if "collections" in src or "bumpalo::vec!" in src:
        f += ["collections", "boxed", "std"]
    elif "boxed" in src:
        f.append("boxed")
    if "allocator_api2" in src or "allocator-api2" in notes and "allocator_api2" in src:
        f.append("allocator-api2")
    if "verif_hooks" in src:
        f.append("verif_hooks")
    if "std" not in f and ("--features std" in notes or "features `std`" in notes or "`std` feature" in notes):
        f.append("std")
    return ",".join(f)


def verify(seed_id, prop, wt):
    patch = os.path.join(wt, "SEED", "patch.diff")
    assert os.path.exists(patch), "no patch"
    feats = detect_features(wt)
    # state: patch applied?
    sh("git checkout -- src", cwd=wt)
    ok0, out0 = demo(wt, feats)
    rc, o = sh("git apply SEED/patch.diff", cwd=wt)
    assert rc == 0, "patch does not apply: " + o
    oks, outs = suite(wt)
    ok1, out1 = demo(wt, feats)
    res = {"suite_passes_with_change": oks, "demo_passes_without_change": ok0, "demo_fails_with_change": not ok1}
    print(json.dumps(res))
    if not (oks and ok0 and not ok1):
        print("SUITE:", outs[-600:])
        print("DEMO without:", out0[-800:])
        print("DEMO with:", out1[-800:])
        return 1
    d = os.path.join(SEEDED, seed_id)
    os.makedirs(d, exist_ok=True)
    shutil.copy(patch, os.path.join(d, "patch.diff"))
    shutil.copy(os.path.join(wt, "SEED", "demo.rs"), os.path.join(d, "demo.rs"))
    notes = open(os.path.join(wt, "SEED", "notes.md")).read() if os.path.exists(os.path.join(wt, "SEED", "notes.md")) else ""
    open(os.path.join(d, "notes.md"), "w").write(notes)
    meta = {"seed": seed_id, "breaks_property": prop, "origin": "independent sub-agent given only the property text and a scratch worktree", "demo_features": feats,
            "confirmed": {"suite_passes_with_change": True, "demo_passes_without_change": True, "demo_fails_with_change": True,
                          "how": "in the scratch worktree: `git checkout -- src`, copy demo to tests/seed_demo.rs, cargo test --offline --test seed_demo (passes); `git apply patch.diff`; cargo test --workspace --no-fail-fast --offline (passes); same demo (fails)"},
            "demo_failure_excerpt": out1[-500:], "needs_to_manifest": notes[:1500], "check_runs": []}
    json.dump(meta, open(os.path.join(d, "meta.json"), "w"), indent=1)
    print("kept as", d)
    return 0


def run(seed_id, props):
    d = os.path.join(SEEDED, seed_id)
    meta = json.load(open(os.path.join(d, "meta.json")))
    props = props or [meta["breaks_property"]]
    rc, o = sh("git -C /repo status --porcelain --untracked-files=no")
    assert o.strip() == "", "/repo is not clean: " + o
    rc, o = sh("git -C /repo apply %s" % os.path.join(d, "patch.diff"))
    assert rc == 0, "patch does not apply to /repo: " + o
    # evidence and replays written while /repo is modified must not survive
    ev_bak = os.path.join(ROOT, "run", "evidence_backup")
    shutil.rmtree(ev_bak, ignore_errors=True)
    shutil.copytree(os.path.join(ROOT, "evidence"), ev_bak)
    rp = os.path.join(ROOT, "replays")
    had = set(os.listdir(rp)) if os.path.isdir(rp) else set()
    try:
        for p in props:
            t0 = time.time()
            rc, out = sh("./check quick %s" % p, cwd=ROOT, timeout=3600)
            lines = [l for l in out.splitlines() if l.startswith(("VIOLATION", "OK", "MACHINERY", "KNOWN", "  clause"))]
            print(p, "exit", rc, "|", " / ".join(lines[:4])[:400])
            meta["check_runs"] = [r for r in meta["check_runs"] if not (r["check"] == "quick " + p)]
            meta["check_runs"].append({"check": "quick " + p, "exit": rc, "detected": rc == 1, "wall_s": round(time.time() - t0, 1), "output": lines[:6]})
    finally:
        sh("git -C /repo checkout -- .")
        shutil.rmtree(os.path.join(ROOT, "evidence"), ignore_errors=True)
        shutil.copytree(ev_bak, os.path.join(ROOT, "evidence"))
        if os.path.isdir(rp):
            keep = os.path.join(d, "replays")
            os.makedirs(keep, exist_ok=True)
            for f in set(os.listdir(rp)) - had:
                shutil.move(os.path.join(rp, f), os.path.join(keep, f))
        json.dump(meta, open(os.path.join(d, "meta.json"), "w"), indent=1)
    return 0


if __name__ == "__main__":
    if sys.argv[1] == "verify":
        sys.exit(verify(sys.argv[2], sys.argv[3], sys.argv[4]))
    if sys.argv[1] == "run":
        sys.exit(run(sys.argv[2], sys.argv[3:]))
