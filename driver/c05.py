"""C05: bounded-exhaustive enumeration of client programs against rustc.

Programs are statement sequences over one arena `b`, up to two *holders* (values carrying the arena
lifetime) and a menu of arena events. A small reference ownership model predicts accept/reject;
rustc's verdict (borrow checker / trait solver) is compared for every program.
"""
import json, os, subprocess, sys, time, hashlib, itertools

# ---------------------------------------------------------------------------------------------
# holders: (name, creation statements (with {h}), use statement, has_drop_glue, borrows_mutably, needs_mut_b)
# ---------------------------------------------------------------------------------------------
HOLDERS = [
    ("ref",        ["let {h} = b.alloc(1u32);"],                                                       "*{h} += 1;",                 False, False),
    ("slice",      ["let {h} = b.alloc_slice_copy(&[1u8, 2]);"],                                       "{h}[0] = 3;",                False, False),
    ("str",        ["let {h} = b.alloc_str(\"x\");"],                                                  "let _ = {h}.len();",         False, False),
    ("Vec",        ["let mut {h} = bumpalo::collections::Vec::new_in(&b);", "{h}.push(1u8);"],          "{h}.push(2u8);",             True,  False),
    ("String",     ["let mut {h} = bumpalo::collections::String::new_in(&b);"],                        "{h}.push('a');",             True,  False),
    ("Box",        ["let {h} = bumpalo::boxed::Box::new_in(5u32, &b);"],                               "let _ = *{h};",              True,  False),
    ("IntoIter",   ["let mut {h} = bumpalo::vec![in &b; 1u8, 2].into_iter();"],                       "let _ = {h}.next();",        True,  False),
    ("VecDrain",   ["let mut {h}_v = bumpalo::vec![in &b; 1u8, 2];", "let mut {h} = {h}_v.drain(..);"], "let _ = {h}.next();",        True,  False),
    ("StrDrain",   ["let mut {h}_s = bumpalo::collections::String::from_str_in(\"ab\", &b);", "let mut {h} = {h}_s.drain(..);"], "let _ = {h}.next();", True, False),
    ("ChunkRawIter", ["let mut {h} = unsafe {{ b.iter_allocated_chunks_raw() }};"],                    "let _ = {h}.next();",        False, False),
    ("ChunkIter",  ["let mut {h} = b.iter_allocated_chunks();"],                                       "let _ = {h}.next();",        False, True),
    ("Api2Vec",    ["let mut {h}: allocator_api2::vec::Vec<u8, &Bump> = allocator_api2::vec::Vec::new_in(&b);"], "{h}.push(2u8);",    True,  False),
]
HN = {h[0]: i for i, h in enumerate(HOLDERS)}

# events: (name, statement, kind) kind: 'mut' needs unique access to b (transient), 'move' moves b away,
# 'shared' uses &b, 'sync' requires Bump: Sync
EVENTS = [
    ("reset",       "b.reset();",                                                                      "mut"),
    ("iter_chunks", "for c in b.iter_allocated_chunks() { let _ = c.len(); }",                         "mut"),
    ("drop_arena",  "drop(b);",                                                                        "move"),
    ("move_arena",  "let _b2 = b;",                                                                    "move"),
    ("alloc",       "let _x = b.alloc(0u8);",                                                          "shared"),
    ("spawn_move",  "std::thread::spawn(move || { let _ = b.alloc(1u8); }).join().unwrap();",          "move"),
    ("scope_share", "std::thread::scope(|s| { s.spawn(|| { let _ = b.alloc(1u8); }); });",             "sync"),
]


def programs(tier):
    """Yield (holders: tuple of holder indices, statements: tuple of symbols).
    Symbols: ('c', i) create holder i-th of `holders`; ('u', i) use; ('d', i) drop(holder); ('e', j) event."""
    q = tier == "quick"
    nh = len(HOLDERS)
    ev = list(range(len(EVENTS)))
    out = []
    # one holder: create, then up to k further statements
    k1 = 2 if q else 3
    for h in range(nh):
        syms = [('u', 0), ('d', 0)] + [('e', j) for j in ev]
        for n in range(0, k1 + 1):
            for seq in itertools.product(syms, repeat=n):
                out.append(((h,), (('c', 0),) + seq))
        # event before creation (arena reused after a reset / iteration; use after move)
        for j in ev:
            out.append(((h,), (('e', j), ('c', 0), ('u', 0))))
    # two holders alive at once
    seconds = [HN["ref"], HN["Vec"], HN["ChunkRawIter"]] if q else list(range(nh))
    k2 = 2 if q else 2
    for h0 in range(nh):
        for h1 in seconds:
            syms = [('u', 0), ('u', 1), ('d', 0)] + [('e', j) for j in ev]
            for n in range(0, k2 + 1):
                for seq in itertools.product(syms, repeat=n):
                    out.append(((h0, h1), (('c', 0), ('c', 1)) + seq))
            if not q:
                for j in ev:
                    out.append(((h0, h1), (('c', 0), ('e', j), ('c', 1), ('u', 0), ('u', 1))))
    return out


def predict(holders, stmts):
    """Reference ownership model. Returns (accept: bool, reason, needs_trait_crate: bool)."""
    n = len(stmts)
    created_at, dropped_at, last_use = {}, {}, {}
    for pos, (k, a) in enumerate(stmts):
        if k == 'c':
            created_at[a] = pos
        elif k == 'u':
            last_use[a] = pos
        elif k == 'd':
            dropped_at.setdefault(a, pos)
            last_use[a] = max(last_use.get(a, -1), pos)

    def live_after(i, pos):
        """Is holder i's loan of the arena still needed after statement position `pos`?"""
        if i not in created_at or created_at[i] > pos:
            return False
        h = HOLDERS[holders[i]]
        if h[0] in ("VecDrain", "StrDrain"):
            # the container the Drain was taken from is a local with drop glue: it borrows the arena
            # until the end of the function, whatever happens to the Drain itself
            return True
        if i in dropped_at and dropped_at[i] <= pos:
            return False
        later_use = any(p > pos for p in [last_use.get(i, -1)])
        if h[3]:
            # drop glue runs at the end of the function (or at an explicit drop later on)
            return True
        return later_use

    moved = False
    trait = False
    for pos, (k, a) in enumerate(stmts):
        if k == 'c':
            if moved:
                return False, "arena used after it was moved", trait
            h = HOLDERS[holders[a]]
            if h[4]:
                # ChunkIter: needs unique access now
                if any(live_after(i, pos) for i in range(len(holders)) if i != a and i in created_at and created_at[i] < pos):
                    return False, "chunk iteration started while something borrows the arena", trait
            else:
                # shared use of b: conflicts with a live ChunkIter
                if any(HOLDERS[holders[i]][4] and live_after(i, pos) for i in range(len(holders)) if i != a and i in created_at and created_at[i] < pos):
                    return False, "allocation while chunk iteration is alive", trait
        elif k == 'u':
            if a not in created_at or created_at[a] > pos:
                return None, "ill-formed", trait
            if a in dropped_at and dropped_at[a] < pos:
                return False, "use of a dropped holder", trait
        elif k == 'd':
            if a not in created_at or created_at[a] > pos:
                return None, "ill-formed", trait
            if dropped_at.get(a) != pos:
                return False, "double drop of a holder", trait
            if HOLDERS[holders[a]][0] in ("ref", "slice", "str") and False:
                pass
        else:
            name, _, kind = EVENTS[a]
            if moved:
                return False, "arena used after it was moved", trait
            livers = [i for i in range(len(holders)) if live_after(i, pos)]
            if kind == "sync":
                trait = True
                return False, "sharing &Bump with another thread needs Bump: Sync", trait
            if kind == "mut":
                if livers:
                    return False, "%s while a holder borrows the arena" % name, trait
            elif kind == "move":
                if livers:
                    return False, "%s while a holder borrows the arena" % name, trait
                moved = True
            elif kind == "shared":
                if any(HOLDERS[holders[i]][4] for i in livers):
                    return False, "allocation while chunk iteration is alive", trait
    return True, "ok", trait


def render(idx, holders, stmts):
    lines = ["#[allow(unused_mut, unused_variables, unused_unsafe, unused_assignments)]", "pub fn p%d() {" % idx, "    let mut b = Bump::new();"]
    for (k, a) in stmts:
        if k == 'c':
            h = HOLDERS[holders[a]]
            for s in h[1]:
                lines.append("    " + s.format(h="h%d" % a))
        elif k == 'u':
            lines.append("    " + HOLDERS[holders[a]][2].format(h="h%d" % a))
        elif k == 'd':
            lines.append("    drop(h%d);" % a)
        else:
            lines.append("    " + EVENTS[a][1])
    lines.append("}")
    return lines


def describe(holders, stmts):
    out = []
    for (k, a) in stmts:
        if k == 'c':
            out.append("create %s h%d" % (HOLDERS[holders[a]][0], a))
        elif k == 'u':
            out.append("use h%d" % a)
        elif k == 'd':
            out.append("drop(h%d)" % a)
        else:
            out.append(EVENTS[a][0])
    return "; ".join(out)


# escape / positive / auto-trait probes (fixed list): (name, expected_accept, crate, source lines)
def fixed_probes():
    P = []
    ret = [
        ("ref", "&'static mut u32", "b.alloc(1u32)"),
        ("slice", "&'static mut [u8]", "b.alloc_slice_copy(&[1u8, 2])"),
        ("str", "&'static mut str", "b.alloc_str(\"x\")"),
        ("Vec", "bumpalo::collections::Vec<'static, u8>", "bumpalo::collections::Vec::new_in(&b)"),
        ("String", "bumpalo::collections::String<'static>", "bumpalo::collections::String::new_in(&b)"),
        ("Box", "bumpalo::boxed::Box<'static, u32>", "bumpalo::boxed::Box::new_in(1u32, &b)"),
        ("IntoIter", "bumpalo::collections::vec::IntoIter<'static, u8>", "bumpalo::vec![in &b; 1u8].into_iter()"),
        ("ChunkRawIter", "bumpalo::ChunkRawIter<'static>", "unsafe { b.iter_allocated_chunks_raw() }"),
        ("Api2Vec", "allocator_api2::vec::Vec<u8, &'static Bump>", "allocator_api2::vec::Vec::new_in(&b)"),
        ("into_bump_slice", "&'static [u8]", "bumpalo::vec![in &b; 1u8].into_bump_slice()"),
        ("into_bump_str", "&'static str", "bumpalo::collections::String::from_str_in(\"a\", &b).into_bump_str()"),
        ("Box::leak", "&'static mut u32", "bumpalo::boxed::Box::leak(bumpalo::boxed::Box::new_in(1u32, &b))"),
    ]
    for name, ty, expr in ret:
        P.append(("escape_%s" % name, False, "borrowck", ["pub fn NAME() -> %s {" % ty, "    let b = Bump::new();", "    %s" % expr, "}"], "returning %s out of the function that owns the arena" % name))
    P.append(("escape_ChunkIter", False, "borrowck", ["pub fn NAME() -> bumpalo::ChunkIter<'static> {", "    let mut b = Bump::new();", "    b.iter_allocated_chunks()", "}"], "returning ChunkIter out of the function that owns the arena"))
    # holder stored in an outer variable outlives an inner arena
    P.append(("escape_inner_scope", False, "borrowck", ["pub fn NAME() {", "    let r;", "    {", "        let b = Bump::new();", "        r = b.alloc(1u32);", "    }", "    *r += 1;", "}"], "reference used after the scope of its arena"))
    # positives
    P.append(("ok_many_alive", True, "borrowck", ["pub fn NAME() {", "    let b = Bump::new();", "    let a = b.alloc(1u32);", "    let c = b.alloc_slice_copy(&[1u8]);", "    let mut v = bumpalo::collections::Vec::new_in(&b);", "    v.push(*a);", "    let s = b.alloc_str(\"x\");", "    *a += c[0] as u32 + s.len() as u32 + v.len() as u32;", "}"], "many allocations alive at once"))
    P.append(("ok_outlives_source_slice", True, "borrowck", ["pub fn NAME<'a>(b: &'a Bump) -> &'a mut [u8] {", "    let src = vec![1u8, 2];", "    b.alloc_slice_copy(&src)", "}"], "a copy outlives the slice it was copied from"))
    P.append(("ok_outlives_source_str", True, "borrowck", ["pub fn NAME<'a>(b: &'a Bump) -> &'a mut str {", "    let src = String::from(\"abc\");", "    b.alloc_str(&src)", "}"], "a copied str outlives its source"))
    P.append(("ok_idle_arena_to_thread", True, "borrowck", ["pub fn NAME() {", "    let mut b = Bump::new();", "    { let x = b.alloc(1u32); *x += 1; }", "    b.reset();", "    std::thread::spawn(move || { let y = b.alloc(2u32); *y += 1; drop(b); }).join().unwrap();", "}"], "an idle arena is moved to another thread"))
    P.append(("ok_reset_between", True, "borrowck", ["pub fn NAME() {", "    let mut b = Bump::new();", "    for _ in 0..2 { let x = b.alloc(1u32); *x += 1; b.reset(); }", "}"], "reset between uses"))
    P.append(("ok_return_with_arena_lifetime", True, "borrowck", ["pub fn NAME<'a>(b: &'a Bump) -> bumpalo::collections::Vec<'a, u8> {", "    let mut v = bumpalo::collections::Vec::new_in(b);", "    v.push(1);", "    v", "}"], "a Vec returned with the arena's lifetime"))
    # API sweep: every public way of obtaining a value that carries the arena's lifetime (including values
    # derived from other holders by conversions), each in four fixed programs
    for name, expr in API_EXPRS:
        P.append(("api_escape_%s" % name, False, "borrowck", ["pub fn NAME() {", "    let h;", "    {", "        let mut b = Bump::new();", "        h = %s;" % expr, "    }", "    let _ = &h;", "}"], "%s: value used after the scope of its arena" % name))
        P.append(("api_reset_%s" % name, False, "borrowck", ["pub fn NAME() {", "    let mut b = Bump::new();", "    let h = %s;" % expr, "    b.reset();", "    let _ = &h;", "}"], "%s: value used after reset" % name))
        P.append(("api_drop_%s" % name, False, "borrowck", ["pub fn NAME() {", "    let mut b = Bump::new();", "    let h = %s;" % expr, "    drop(b);", "    let _ = &h;", "}"], "%s: value used after the arena was dropped" % name))
        P.append(("api_ok_%s" % name, True, "borrowck", ["pub fn NAME() {", "    let mut b = Bump::new();", "    let h = %s;" % expr, "    let _ = &h;", "    drop(h);", "    b.reset();", "}"], "%s: value given up before reset" % name))
    P.append(("share_via_splice", False, "trait", ["pub fn NAME() {", "    let b = Bump::new();", "    let mut v = bumpalo::vec![in &b; 1u8, 2, 3];", "    let sp = v.splice(0..1, vec![7u8, 8, 9, 10]);", "    std::thread::scope(|s| {", "        s.spawn(move || drop(sp));", "        let _ = b.alloc(1u8);", "    });", "}"],
              "a Splice moved to another thread (its destructor grows the Vec in the arena) while this thread allocates"))
    P.append(("share_via_from_utf8_error", False, "trait", ["pub fn NAME() {", "    let b = Bump::new();", "    let e = bumpalo::collections::String::from_utf8(bumpalo::vec![in &b; 255u8]).unwrap_err();", "    std::thread::scope(|s| {", "        s.spawn(move || { let mut v = e.into_bytes(); v.push(1); });", "        let _ = b.alloc(1u8);", "    });", "}"],
              "a FromUtf8Error (which owns the Vec) moved to another thread while this thread allocates"))
    P.append(("share_via_vec", False, "trait", ["pub fn NAME() {", "    let b = Bump::new();", "    let mut v = bumpalo::vec![in &b; 1u8];", "    std::thread::scope(|s| {", "        s.spawn(move || v.push(2));", "        let _ = b.alloc(1u8);", "    });", "}"],
              "a Vec moved to another thread while this thread allocates"))
    # a result must be allowed to outlive the source it was copied from (every method that copies from a borrowed source)
    for name, setup, expr in COPY_EXPRS:
        P.append(("ok_outlives_source_%s" % name, True, "borrowck", ["pub fn NAME<'a>(b: &'a Bump) -> impl Sized + 'a {", "    %s" % setup, "    %s" % expr, "}"], "%s: the result outlives the source it was copied from" % name))
    # auto traits
    send_yes = [("Bump", "Bump"), ("Bump<8>", "Bump<8>"), ("Box<u32>", "bumpalo::boxed::Box<'static, u32>"), ("IntoIter<u8>", "bumpalo::collections::vec::IntoIter<'static, u8>"), ("&mut u32", "&'static mut u32"),
                ("Pin<Box<u32>>", "std::pin::Pin<bumpalo::boxed::Box<'static, u32>>"), ("Box<[u8]>", "bumpalo::boxed::Box<'static, [u8]>"), ("&mut Bump", "&'static mut Bump")]
    # a value must not be Send if it can reach the arena (allocate, grow, free) from wherever it is: everything
    # that holds a `&Bump` or a Vec/String, including the adaptors whose methods or destructor grow the Vec
    send_no = [("&Bump", "&'static Bump"), ("Vec<u8>", "bumpalo::collections::Vec<'static, u8>"), ("String", "bumpalo::collections::String<'static>"), ("ChunkRawIter", "bumpalo::ChunkRawIter<'static>"), ("ChunkIter", "bumpalo::ChunkIter<'static>"),
               ("Api2Vec", "allocator_api2::vec::Vec<u8, &'static Bump>"), ("Box<Rc<u8>>", "bumpalo::boxed::Box<'static, std::rc::Rc<u8>>"),
               ("FromUtf8Error", "bumpalo::collections::string::FromUtf8Error<'static>"), ("vec::Splice", "bumpalo::collections::vec::Splice<'static, 'static, std::vec::IntoIter<u8>>"),
               ("vec::DrainFilter", "bumpalo::collections::vec::DrainFilter<'static, 'static, u8, fn(&mut u8) -> bool>"), ("&mut Vec<u8>", "&'static mut bumpalo::collections::Vec<'static, u8>"),
               ("&Vec<u8>", "&'static bumpalo::collections::Vec<'static, u8>"), ("&mut String", "&'static mut bumpalo::collections::String<'static>"),
               ("Box<Vec<u8>>", "bumpalo::boxed::Box<'static, bumpalo::collections::Vec<'static, u8>>"), ("IntoIter<Vec<u8>>", "bumpalo::collections::vec::IntoIter<'static, bumpalo::collections::Vec<'static, u8>>"),
               ("Api2Box", "allocator_api2::boxed::Box<u32, &'static Bump>"), ("Bump<8> ref", "&'static Bump<8>")]
    sync_yes = [("Box<u32>", "bumpalo::boxed::Box<'static, u32>"), ("IntoIter<u8>", "bumpalo::collections::vec::IntoIter<'static, u8>")]
    # element-type bounds of the hand-written auto-trait impls: a Send-but-not-Sync element (Cell, or a Bump) must
    # not make the owner Sync, a not-Send element (Rc) must not make it Send
    CELL, RC = "std::cell::Cell<u8>", "std::rc::Rc<u8>"
    for owner, ty in [("IntoIter", "bumpalo::collections::vec::IntoIter<'static, %s>"), ("vec::Drain", "bumpalo::collections::vec::Drain<'static, 'static, %s>"), ("Box", "bumpalo::boxed::Box<'static, %s>"),
                      ("Box<[T]>", "bumpalo::boxed::Box<'static, [%s]>"), ("Pin<Box>", "std::pin::Pin<bumpalo::boxed::Box<'static, %s>>")]:
        P.append(("notsync_%s_of_Cell" % owner, False, "trait", ["pub fn NAME() {", "    assert_sync::<%s>();" % (ty % CELL), "}"], "%s<Cell<u8>> must not be Sync" % owner))
        P.append(("notsync_%s_of_Bump" % owner, False, "trait", ["pub fn NAME() {", "    assert_sync::<%s>();" % (ty % "Bump"), "}"], "%s<Bump> must not be Sync" % owner))
        P.append(("notsend_%s_of_Rc" % owner, False, "trait", ["pub fn NAME() {", "    assert_send::<%s>();" % (ty % RC), "}"], "%s<Rc<u8>> must not be Send" % owner))
        P.append(("send_%s_of_Cell" % owner, True, "trait", ["pub fn NAME() {", "    assert_send::<%s>();" % (ty % CELL), "}"], "%s<Cell<u8>>: Send" % owner))
    P.append(("share_via_into_iter_of_bumps", False, "trait", ["pub fn NAME() {", "    let outer = Bump::new();", "    let mut v = bumpalo::collections::Vec::new_in(&outer);", "    v.push(Bump::new());", "    let it = v.into_iter();", "    std::thread::scope(|s| {", "        s.spawn(|| { let _ = it.as_slice()[0].alloc(1u8); });", "        let _ = it.as_slice()[0].alloc(2u8);", "    });", "}"],
              "an IntoIter over arenas shared by reference with another thread (both allocate in the same arena)"))
    sync_no = [("Bump", "Bump"), ("Bump<16>", "Bump<16>"), ("Vec<u8>", "bumpalo::collections::Vec<'static, u8>"), ("String", "bumpalo::collections::String<'static>"), ("ChunkRawIter", "bumpalo::ChunkRawIter<'static>"), ("ChunkIter", "bumpalo::ChunkIter<'static>")]
    for (nm, ty) in send_yes:
        P.append(("send_%s" % nm, True, "trait", ["pub fn NAME() {", "    assert_send::<%s>();" % ty, "}"], "%s: Send" % nm))
    for (nm, ty) in send_no:
        P.append(("notsend_%s" % nm, False, "trait", ["pub fn NAME() {", "    assert_send::<%s>();" % ty, "}"], "%s must not be Send" % nm))
    for (nm, ty) in sync_yes:
        P.append(("sync_%s" % nm, True, "trait", ["pub fn NAME() {", "    assert_sync::<%s>();" % ty, "}"], "%s: Sync" % nm))
    for (nm, ty) in sync_no:
        P.append(("notsync_%s" % nm, False, "trait", ["pub fn NAME() {", "    assert_sync::<%s>();" % ty, "}"], "%s must not be Sync" % nm))
    return P


BX = "bumpalo::boxed::Box"
BV = "bumpalo::collections::Vec"
BS = "bumpalo::collections::String"
DYN_ANY = "tie(&b, unsafe { %s::from_raw(%s::into_raw(%s::new_in(5u32, &b)) as *mut dyn std::any::Any) })" % (BX, BX, BX)
DYN_ANY_SEND = "tie(&b, unsafe { %s::from_raw(%s::into_raw(%s::new_in(5u32, &b)) as *mut (dyn std::any::Any + Send)) })" % (BX, BX, BX)
API_EXPRS = [
    ("alloc", "b.alloc(1u32)"), ("try_alloc", "b.try_alloc(1u32).unwrap()"), ("alloc_with", "b.alloc_with(|| 1u32)"), ("try_alloc_with", "b.try_alloc_with(|| 1u32).unwrap()"),
    ("alloc_try_with", "b.alloc_try_with(|| Ok::<u32, ()>(1)).unwrap()"), ("try_alloc_try_with", "b.try_alloc_try_with(|| Ok::<u32, ()>(1)).unwrap()"),
    ("alloc_slice_copy", "b.alloc_slice_copy(&[1u8, 2])"), ("try_alloc_slice_copy", "b.try_alloc_slice_copy(&[1u8, 2]).unwrap()"),
    ("alloc_slice_clone", "b.alloc_slice_clone(&[1u8, 2])"), ("try_alloc_slice_clone", "b.try_alloc_slice_clone(&[1u8, 2]).unwrap()"),
    ("alloc_str", "b.alloc_str(\"x\")"), ("try_alloc_str", "b.try_alloc_str(\"x\").unwrap()"),
    ("alloc_slice_fill_with", "b.alloc_slice_fill_with(2, |i| i as u8)"), ("try_alloc_slice_fill_with", "b.try_alloc_slice_fill_with(2, |i| i as u8).unwrap()"),
    ("alloc_slice_try_fill_with", "b.alloc_slice_try_fill_with(2, |i| Ok::<u8, ()>(i as u8)).unwrap()"),
    ("alloc_slice_fill_copy", "b.alloc_slice_fill_copy(2, 1u8)"), ("try_alloc_slice_fill_copy", "b.try_alloc_slice_fill_copy(2, 1u8).unwrap()"),
    ("alloc_slice_fill_clone", "b.alloc_slice_fill_clone(2, &1u8)"), ("try_alloc_slice_fill_clone", "b.try_alloc_slice_fill_clone(2, &1u8).unwrap()"),
    ("alloc_slice_fill_iter", "b.alloc_slice_fill_iter([1u8, 2])"), ("try_alloc_slice_fill_iter", "b.try_alloc_slice_fill_iter([1u8, 2]).unwrap()"),
    ("alloc_slice_try_fill_iter", "b.alloc_slice_try_fill_iter([Ok::<u8, ()>(1), Ok(2)]).unwrap()"),
    ("alloc_slice_fill_default", "b.alloc_slice_fill_default::<u8>(2)"), ("try_alloc_slice_fill_default", "b.try_alloc_slice_fill_default::<u8>(2).unwrap()"),
    ("iter_allocated_chunks", "b.iter_allocated_chunks()"), ("iter_allocated_chunks_raw", "unsafe { b.iter_allocated_chunks_raw() }"),
    ("chunk_slice", "b.iter_allocated_chunks().next()"),
    ("Vec_new_in", "%s::<u8>::new_in(&b)" % BV), ("Vec_with_capacity_in", "%s::<u8>::with_capacity_in(2, &b)" % BV), ("Vec_from_iter_in", "%s::from_iter_in([1u8, 2], &b)" % BV),
    ("vec_macro", "bumpalo::vec![in &b; 1u8, 2]"), ("vec_macro_repeat", "bumpalo::vec![in &b; 1u8; 3]"),
    ("Vec_collect_in", "{ use bumpalo::collections::CollectIn; [1u8, 2].into_iter().collect_in::<%s<u8>>(&b) }" % BV),
    ("Vec_bump", "%s::<u8>::new_in(&b).bump()" % BV), ("String_bump", "%s::new_in(&b).bump()" % BS),
    ("Vec_clone", "bumpalo::vec![in &b; 1u8, 2].clone()"), ("Vec_split_off", "bumpalo::vec![in &b; 1u8, 2].split_off(1)"),
    ("Vec_into_bump_slice", "bumpalo::vec![in &b; 1u8, 2].into_bump_slice()"), ("Vec_into_bump_slice_mut", "bumpalo::vec![in &b; 1u8, 2].into_bump_slice_mut()"),
    ("Vec_into_boxed_slice", "bumpalo::vec![in &b; 1u8, 2].into_boxed_slice()"), ("Vec_into_iter", "bumpalo::vec![in &b; 1u8, 2].into_iter()"),
    ("Box_from_Vec", "%s::<[u8]>::from(bumpalo::vec![in &b; 1u8, 2])" % BX),
    ("String_new_in", "%s::new_in(&b)" % BS), ("String_with_capacity_in", "%s::with_capacity_in(2, &b)" % BS), ("String_from_str_in", "%s::from_str_in(\"ab\", &b)" % BS),
    ("String_from_iter_in", "%s::from_iter_in(['a', 'b'], &b)" % BS), ("String_collect_in", "{ use bumpalo::collections::CollectIn; ['a', 'b'].into_iter().collect_in::<%s>(&b) }" % BS),
    ("String_from_utf8", "%s::from_utf8(bumpalo::vec![in &b; 97u8]).unwrap()" % BS), ("String_from_utf8_err", "%s::from_utf8(bumpalo::vec![in &b; 255u8]).unwrap_err()" % BS),
    ("FromUtf8Error_into_bytes", "%s::from_utf8(bumpalo::vec![in &b; 255u8]).unwrap_err().into_bytes()" % BS),
    ("String_from_utf8_lossy_in", "%s::from_utf8_lossy_in(&[97u8, 255], &b)" % BS), ("String_from_utf16_in", "%s::from_utf16_in(&[97u16], &b).unwrap()" % BS),
    ("String_from_utf8_unchecked", "unsafe { %s::from_utf8_unchecked(bumpalo::vec![in &b; 97u8]) }" % BS),
    ("String_into_bytes", "%s::from_str_in(\"ab\", &b).into_bytes()" % BS), ("String_into_bump_str", "%s::from_str_in(\"ab\", &b).into_bump_str()" % BS),
    ("String_split_off", "%s::from_str_in(\"ab\", &b).split_off(1)" % BS), ("String_clone", "%s::from_str_in(\"ab\", &b).clone()" % BS),
    ("format_macro", "bumpalo::format!(in &b, \"{}\", 1)"),
    ("Box_new_in", "%s::new_in(5u32, &b)" % BX), ("Box_pin_in", "%s::pin_in(5u32, &b)" % BX), ("Pin_from_Box", "std::pin::Pin::<%s<u32>>::from(%s::new_in(5u32, &b))" % (BX, BX)),
    ("Box_leak", "%s::leak(%s::new_in(5u32, &b))" % (BX, BX)), ("Box_from_iter_in", "%s::<[u8]>::from_iter_in([1u8, 2], &b)" % BX),
    ("Box_collect_in", "{ use bumpalo::collections::CollectIn; [1u8, 2].into_iter().collect_in::<%s<[u8]>>(&b) }" % BX),
    ("Box_slice_from_array", "%s::<[u8]>::from(%s::new_in([1u8, 2], &b))" % (BX, BX)),
    ("Box_array_try_from_slice", "%s::<[u8; 2]>::try_from(%s::<[u8]>::from_iter_in([1u8, 2], &b)).ok().unwrap()" % (BX, BX)),
    ("Box_array_try_from_slice_err", "%s::<[u8; 3]>::try_from(%s::<[u8]>::from_iter_in([1u8, 2], &b)).err().unwrap()" % (BX, BX)),
    ("Box_downcast_ok", "%s.downcast::<u32>().ok().unwrap()" % DYN_ANY), ("Box_downcast_err", "%s.downcast::<u8>().err().unwrap()" % DYN_ANY),
    ("Box_send_downcast_ok", "%s.downcast::<u32>().ok().unwrap()" % DYN_ANY_SEND), ("Box_send_downcast_err", "%s.downcast::<u8>().err().unwrap()" % DYN_ANY_SEND),
    ("Api2_Vec", "allocator_api2::vec::Vec::<u8, &Bump>::new_in(&b)"), ("Api2_Box", "allocator_api2::boxed::Box::new_in(5u32, &b)"),
    ("Allocator_allocate", "{ use allocator_api2::alloc::Allocator; let a: &Bump = &b; (a, a.allocate(std::alloc::Layout::new::<u32>()).unwrap()).0 }"),
]

SRC_SLICE = "let src = vec![1u8, 2];"
SRC_STR = "let src = String::from(\"ab\");"
COPY_EXPRS = [
    ("alloc_slice_copy", SRC_SLICE, "b.alloc_slice_copy(&src)"), ("try_alloc_slice_copy", SRC_SLICE, "b.try_alloc_slice_copy(&src).unwrap()"),
    ("alloc_slice_clone", SRC_SLICE, "b.alloc_slice_clone(&src)"), ("try_alloc_slice_clone", SRC_SLICE, "b.try_alloc_slice_clone(&src).unwrap()"),
    ("alloc_str", SRC_STR, "b.alloc_str(&src)"), ("try_alloc_str", SRC_STR, "b.try_alloc_str(&src).unwrap()"),
    ("alloc_slice_fill_clone", SRC_STR, "b.alloc_slice_fill_clone(2, &src.len())"), ("try_alloc_slice_fill_clone", SRC_STR, "b.try_alloc_slice_fill_clone(2, &src.len()).unwrap()"),
    ("alloc_slice_fill_iter", SRC_SLICE, "b.alloc_slice_fill_iter(src.iter().copied())"),
    ("String_from_str_in", SRC_STR, "%s::from_str_in(&src, b)" % BS), ("String_from_utf8_lossy_in", SRC_SLICE, "%s::from_utf8_lossy_in(&src, b)" % BS),
    ("String_from_utf16_in", "let src = vec![97u16];", "%s::from_utf16_in(&src, b).unwrap()" % BS), ("String_push_str", SRC_STR, "{ let mut s = %s::new_in(b); s.push_str(&src); s }" % BS),
    ("Vec_extend_from_slice", SRC_SLICE, "{ let mut v = %s::new_in(b); v.extend_from_slice(&src); v }" % BV), ("Vec_extend_from_slice_copy", SRC_SLICE, "{ let mut v = %s::new_in(b); v.extend_from_slice_copy(&src); v }" % BV),
    ("Vec_extend_from_slices_copy", SRC_SLICE, "{ let mut v = %s::new_in(b); v.extend_from_slices_copy(&[&src[..], &src[..1]]); v }" % BV),
    ("Vec_from_iter_in", SRC_SLICE, "%s::from_iter_in(src.iter().copied(), b)" % BV), ("Box_from_iter_in", SRC_SLICE, "%s::<[u8]>::from_iter_in(src.iter().copied(), b)" % BX),
    ("format_macro", SRC_STR, "bumpalo::format!(in b, \"{}\", src)"),
]

CARGO_TOML = """[package]
name = "%s"
version = "0.0.0"
edition = "2021"

[lib]
path = "src/lib.rs"

[dependencies]
bumpalo = { path = "/repo", features = ["collections", "boxed", "allocator-api2"] }
allocator-api2 = { version = "0.2.8", default-features = false, features = ["alloc"] }
"""

HEADER = ["#![allow(dead_code, unused_mut, unused_variables, unused_unsafe, dropping_references, dropping_copy_types)]", "use bumpalo::Bump;", "fn assert_send<T: Send>() {}", "fn assert_sync<T: Sync>() {}",
          "fn tie<'a, T: ?Sized>(_b: &'a Bump, x: bumpalo::boxed::Box<'a, T>) -> bumpalo::boxed::Box<'a, T> { x }", ""]


def build_crate(root, name, probes):
    """probes: list of (id, lines). Returns dict line -> id ranges."""
    d = os.path.join(root, "run", "probes", name)
    os.makedirs(os.path.join(d, "src"), exist_ok=True)
    open(os.path.join(d, "Cargo.toml"), "w").write(CARGO_TOML % name)
    os.makedirs(os.path.join(d, ".cargo"), exist_ok=True)
    open(os.path.join(d, ".cargo", "config.toml"), "w").write('[net]\noffline = true\n[build]\nrustflags = ["--cap-lints", "warn"]\ntarget-dir = "%s"\n' % os.path.join(root, "target", "probes"))
    lock_src = os.path.join(root, "engine", "Cargo.lock")
    if os.path.exists(lock_src) and not os.path.exists(os.path.join(d, "Cargo.lock")):
        import shutil
        shutil.copy(lock_src, os.path.join(d, "Cargo.lock"))
    src, ranges = list(HEADER), []
    for pid, lines in probes:
        start = len(src) + 1
        src += lines
        ranges.append((start, len(src), pid))
        src.append("")
    open(os.path.join(d, "src", "lib.rs"), "w").write("\n".join(src) + "\n")
    return d, ranges


def cargo_check(d):
    env = dict(os.environ, CARGO_NET_OFFLINE="true", CARGO_TERM_COLOR="never")
    r = subprocess.run(["cargo", "check", "--offline", "--message-format=json", "-q"], cwd=d, env=env, stdout=subprocess.PIPE, stderr=subprocess.PIPE, text=True)
    errs = []
    for line in r.stdout.splitlines():
        try:
            m = json.loads(line)
        except Exception:
            continue
        if m.get("reason") != "compiler-message":
            continue
        msg = m["message"]
        if msg.get("level") != "error":
            continue
        code = (msg.get("code") or {}).get("code")
        spans = [s for s in msg.get("spans", []) if s.get("is_primary")] or msg.get("spans", [])
        ln = spans[0]["line_start"] if spans else None
        fname = spans[0]["file_name"] if spans else ""
        errs.append({"code": code, "line": ln, "file": fname, "text": msg.get("message", "")[:160]})
    return r.returncode, errs, r.stderr[-2000:]


BORROW_CODES = {"E0499", "E0502", "E0505", "E0506", "E0597", "E0515", "E0716", "E0382", "E0503", "E0521", "E0373", "E0712", "E0713"}
TRAIT_CODES = {"E0277"}


def run(tier, root):
    t0 = time.time()
    progs = programs(tier)
    seq_probes = []
    for idx, (holders, stmts) in enumerate(progs):
        acc, reason, trait = predict(holders, stmts)
        if acc is None:
            continue
        seq_probes.append({"id": "seq%d" % idx, "expected": acc, "reason": reason, "crate": "trait" if trait else "borrowck", "lines": render(idx, holders, stmts), "desc": describe(holders, stmts)})
    for k, (name, acc, crate, lines, desc) in enumerate(fixed_probes()):
        fn = "f%d_%s" % (k, "".join(c if c.isalnum() else "_" for c in name))
        seq_probes.append({"id": fn, "expected": acc, "reason": desc, "crate": crate, "lines": [l.replace("NAME", fn) for l in lines], "desc": desc})
    results = {"programs": len(seq_probes), "violations": [], "machinery": None}
    verdicts = {}
    for crate in ("borrowck", "trait"):
        sel = [p for p in seq_probes if p["crate"] == crate]
        d, ranges = build_crate(root, "c05_" + crate, [(p["id"], p["lines"]) for p in sel])
        rc, errs, stderr = cargo_check(d)
        if rc != 0 and not errs:
            results["machinery"] = "cargo check failed without diagnostics: " + stderr[-500:]
            return results
        rejected = {}
        foreign = []
        for e in errs:
            if not e["file"].endswith("lib.rs") or e["line"] is None:
                foreign.append(e)
                continue
            owner = next((pid for (a, b, pid) in ranges if a <= e["line"] <= b), None)
            if owner is None:
                foreign.append(e)
                continue
            rejected.setdefault(owner, []).append(e)
        if foreign:
            results["machinery"] = "diagnostics outside the probes (the crate under test may not build): %s" % foreign[:3]
            return results
        if crate == "borrowck":
            # a type-level error would suppress borrow checking of the whole crate
            bad = [(pid, e) for pid, es in rejected.items() for e in es if e["code"] not in BORROW_CODES]
            if bad:
                # report as mismatches only if the probe was expected to be accepted; otherwise machinery
                results["nonborrow_errors"] = [{"probe": pid, "code": e["code"], "text": e["text"]} for pid, e in bad[:10]]
        for p in sel:
            verdicts[p["id"]] = (p["id"] not in rejected, rejected.get(p["id"], []))
    nacc = nrej = 0
    for p in seq_probes:
        got, es = verdicts[p["id"]]
        if got:
            nacc += 1
        else:
            nrej += 1
        if got != p["expected"]:
            kind = "accepted_but_must_be_rejected" if got else "rejected_but_must_be_accepted"
            klass = p["reason"] if not p["id"].startswith("seq") else p["reason"]
            results["violations"].append({"property": "C05", "clause": kind, "key": "%s/%s" % (kind, klass), "detail": "program `%s`: expected %s (%s); rustc %s %s" % (p["desc"], "accept" if p["expected"] else "reject", p["reason"], "accepted it" if got else "rejected it:", "; ".join("%s %s" % (e["code"], e["text"][:80]) for e in es[:2])),
                                          "probe_source": p["lines"], "probe_id": p["id"]})
    results.update({"accepted": nacc, "rejected": nrej, "wall_s": time.time() - t0,
                    "samples": [{"program": p["desc"], "expected": "accept" if p["expected"] else "reject", "rustc": "accept" if verdicts[p["id"]][0] else "reject"} for p in seq_probes[:: max(1, len(seq_probes) // 6)][:6]]})
    return results


if __name__ == "__main__":
    r = run(sys.argv[1] if len(sys.argv) > 1 else "quick", os.path.dirname(os.path.dirname(os.path.abspath(__file__))))
    print(json.dumps({k: v for k, v in r.items() if k != "violations"}, indent=1)[:3000])
    for v in r["violations"][:40]:
        print(v["key"], "|", v["detail"][:300])
    print(len(r["violations"]), "mismatches")
