#!/usr/bin/env python3
"""Regenerate /verif/MANIFEST.json from the table below (single source of truth for the interface)."""
import json, os, subprocess

ROOT = os.path.dirname(os.path.dirname(os.path.abspath(__file__)))

HOOK_COMMIT = "7ef4b72"

ARENA_NOTE = ("Trusted base: rustc; the engine's controlled global allocator (Env: per-arena slabs, enumerated placement class / refusal answers, ledger) and its shadow state; "
              "the canonical state key used for deduplication; x86-64 addresses only. Bounds are stated in the evidence file; nothing is claimed beyond them.")

CHECKS = {
    "C01": ("model_checking", "bumpmc arena explorer (profile core)", "§4 C01",
            "Bounded-exhaustive BFS over operation histories (all allocation flavours, Allocator grow/shrink/deallocate, reset, limits) of real Bump<1|2|4|8|16> arenas under a controlled global allocator; every returned block is checked to lie in a held block, off the bookkeeping tail, disjoint from live blocks; red zones and the shared static are checked after every step.",
            "exhaustive history enumeration (explicit-state BFS by re-execution) with allocator-answer deviations"),
    "C02": ("model_checking", "bumpmc arena explorer (profile core)", "§4 C02",
            "Same exploration; oracle: initial contents equal what the caller supplied, callbacks run once per index in order, every live block keeps the bytes last written through its reference after every later operation, grow/shrink keep the common prefix.",
            "exhaustive history enumeration with content shadow state"),
    "C03": ("model_checking", "bumpmc arena explorer (profile ledger)", "§4 C03",
            "BFS over histories with capacities, multi-chunk growth, refusals, thread hand-over; every execution ends with drop; ledger oracle: each block freed exactly once with its layout, only by reset (all but newest) or drop (all), nothing foreign.",
            "exhaustive history enumeration against an allocator ledger"),
    "C04": ("model_checking", "bumpmc arena explorer (profile core)", "§4 C04",
            "BFS over histories; every returned pointer (all flavours, grow, shrink) is checked against the requested alignment and MIN_ALIGN for MIN_ALIGN 1..16 and several chunk-base alignment classes.",
            "exhaustive history enumeration over placement classes"),
    "C05": ("exploration", "probe-program generator + rustc (driver/c05.py)", "§4 C05",
            "Bounded-exhaustive enumeration of client programs (statement sequences over holders of every public type carrying the arena lifetime and arena events), each compiled by rustc; a reference ownership model predicts the verdict and every disagreement in either direction is a violation. Auto-trait expectations (Send/Sync table) are probed the same way.",
            "exhaustive program enumeration judged by the compiler"),
    "C06": ("model_checking", "bumpmc arena explorer (profile reset)", "§4 C06",
            "BFS over histories with reset at every reached state plus a terminal probe that takes the whole usable capacity of the kept block under a refusing allocator.",
            "exhaustive history enumeration with post-reset probes"),
    "C07": ("model_checking", "bumpmc arena explorer (profile limit)", "§4 C07",
            "BFS with limits placed relative to the bytes held and the next chunk size; oracle at every acquisition: bytes held for allocation <= limit; fitting requests succeed; Some(L);None and None-on-None leave the canonical state unchanged.",
            "exhaustive history enumeration with state-relative limits"),
    "C08": ("model_checking", "bumpmc arena explorer (profile core)", "§4 C08",
            "BFS; after every step allocated_bytes_including_metadata() equals the ledger total, allocated_bytes() equals it minus footer*blocks, and neither changes unless the ledger did.",
            "exhaustive history enumeration against an allocator ledger"),
    "C09": ("fault_enumeration", "bumpmc arena explorer (profile fallible)", "§4 C09",
            "Every prefix history x every fallible/infallible final operation (sizes up to isize::MAX, alignments up to 2^62) x every refusal position of its chunk requests; Err must change nothing, twins must agree (Err <=> oom panic), non-termination is caught by Env's guard and the watchdog.",
            "exhaustive fault-position enumeration over allocator refusals"),
    "C10": ("model_checking", "bumpmc arena explorer (profile core)", "§4 C10",
            "BFS; after every step both iterators are compared, one slice per held block newest first, inside its block, every live block covered exactly once.",
            "exhaustive history enumeration"),
    "C11": ("model_checking", "bumpmc arena explorer (profile init)", "§4 C11",
            "Every prefix state x alloc_try_with / try_alloc_try_with / slice try_fill flavours x value types x initialiser behaviours; terminal probe: same-layout request under default allocator must need zero allocator requests; error token drop ledger.",
            "exhaustive history enumeration with residue probes"),
    "C12": ("model_checking", "bumpmc arena explorer (profile allocapi)", "§4 C12",
            "BFS over allocate/deallocate/grow/grow_zeroed/shrink on up to three handles with independent old/new sizes and alignments mixed with native allocations and resets; oracle: fit, alignment, prefix, zero tail, disjointness, Err leaves the block intact.",
            "exhaustive history enumeration of Allocator calls"),
    "C13": ("model_checking", "bumpmc vec model (differential BFS against std::vec::Vec)", "§4 C13",
            "BFS over programs of Vec operations (every method named in the property, every RangeBounds form over indices 0, n/2, n-1, n, n+1, usize::MAX, predicates, iterator consumption patterns, neighbours growing in the same arena) executed on bumpalo::collections::Vec and std Vec; return values, contents, lengths, panics, capacity promises and neighbours are compared after every step, for drop-tracked, u8 and zero-sized elements.",
            "exhaustive program enumeration with a reference model (explicit-state BFS by re-execution)"),
    "C14": ("model_checking", "bumpmc string model + decoder grids", "§4 C14",
            "BFS over programs of String operations over text mixing 1-4 byte characters with every byte index (0..=len+1, usize::MAX) and every range form, against std String (values, text, panics, UTF-8 validity after every step); exhaustive grids for from_utf8 / from_utf8_lossy_in (all byte strings up to length 3, class alphabet up to length 5; thorough 4 and 7) and from_utf16_in.",
            "exhaustive program enumeration with a reference model + exhaustive input grids"),
    "C15": ("model_checking", "bumpmc vec model (drop ledgers) + Box chains", "§4 C15",
            "Same Vec exploration with drop-tracked elements: after every step and after dropping containers and arena, the multiset of destructor runs equals std's, nothing reachable has been dropped, leaked values (into_bump_slice, forgotten iterators, Box::leak/into_raw) are never dropped; plus all Box conversion chains.",
            "exhaustive program enumeration with destructor ledgers"),
    "C16": ("fault_enumeration", "bumpmc vec/string models in fault mode + Box + arena callbacks", "§4 C16",
            "For every container state (all value patterns up to the length bound, optionally after one prior operation) x every operation that calls user code x every invocation index of that callback as the single panic point: no label dropped twice (also after clearing and dropping), nothing dropped is reachable, Strings stay valid UTF-8, the arena still serves requests and passes the arena oracles; same for panicking initialisers/Clone/Default/iterators inside arena slice methods and panicking destructors under Box.",
            "exhaustive panic-point enumeration"),
    "C17": ("model_checking", "bumpmc grid engine (Box conversion chains)", "§4 C17",
            "Every chain constructor x up to 3 (thorough 4) steps from {into_raw/from_raw, deref read, deref_mut write, Pin round trip, compare/hash/format} x terminal {drop, into_inner/consume, leak, into_raw, downcast mismatch+match, TryFrom<[T;N]> wrong+right N} over 12 value families (sized, zero-sized, slices of sized and of zero-sized droppable elements from 5 constructors, str, dyn Any, dyn Any+Send, Iterator, dyn Future, dyn Hasher), compared with std Box: observations (also after the arena is used again), destructor ledger, and the arena's ledger unchanged by Box death; plus a forwarding grid: every comparison/Hash/Hasher/Display/Debug/Iterator/Future/Borrow impl on value pairs, format specs and method pairs against std's Box.",
            "exhaustive chain enumeration with a reference model"),
    "C18": ("exploration", "bumpmc grid engine (capacity, growth) + arena explorer (profile capprobe)", "§4 C18",
            "Exhaustive grid: every capacity of a fixed set x MIN_ALIGN x request compositions served under a refusing allocator; growth workloads over fixed/ramp/alternating request sizes up to 2^18 (2^24 thorough) bytes judged on chunk-size monotonicity, logarithmic request count and bounded held/occupied ratio; BFS with a terminal probe of exactly chunk_capacity() bytes at every reached state.",
            "exhaustive grid enumeration + exhaustive history enumeration with capacity probes"),
    "C19": ("exploration", "bumpmc grid engine (overflow)", "§4 C19",
            "Exhaustive grid: 29 size-taking entry points x element sizes x 16 count classes around every overflow boundary x MIN_ALIGN x empty/non-empty container; impossible totals must end in Err/panic, any success must be backed by a held block, lengths must equal the mathematical value.",
            "exhaustive boundary-grid enumeration"),
    "C20": ("model_checking", "bumpmc pair model + c20_loom (loom 0.7)", "§4 C20",
            "Sequential product exploration of two/three arenas (solo-trace = interleaved-trace, other arenas untouched, every bookkeeping store inside the acting arena's own chunks) plus loom exploration of all schedules of threads each driving its own arena, with the crate's shared static modelled as a loom cell so that unsynchronised conflicting accesses are reported.",
            "exhaustive interleaving enumeration (own BFS) + loom DPOR schedule exploration"),
}

PENDING = {
    "C05": "check under construction (probe-program enumeration against rustc); see DESIGN.md §4 C05",
    "C13": "check under construction (differential explicit-state search against std::vec::Vec)",
    "C14": "check under construction (differential search against std::string::String + decoder grids)",
    "C15": "check under construction (drop-ledger search)",
    "C16": "check under construction (panic-point enumeration)",
    "C17": "check under construction (Box conversion chains)",
    "C18": "check under construction (capacity/growth grids)",
    "C19": "check under construction (overflow boundary grid)",
    "C20": "check under construction (pair model + loom schedules)",
}


def main():
    checks = []
    for pid in sorted(CHECKS):
        cat, engine, ref, text, tech = CHECKS[pid]
        checks.append({
            "property_id": pid,
            "quick_cmd": "./check quick %s" % pid,
            "thorough_cmd": "./check thorough %s" % pid,
            "evidence_file": "/verif/evidence/%s.json" % pid,
            "replay_cmd_template": "./check replay {path}",
            "engine": engine,
            "level_claimed": {"category": cat, "text": text, "design_ref": ref},
            "level_note": NOTES.get(pid, ARENA_NOTE if pid < "C13" or pid in ("C18", "C19", "C20") else COLL_NOTE),
            "technique": tech,
        })
    m = {
        "version": 1,
        "setup_cmd": "./check setup",
        "hooks": {
            "guard": "cargo feature `verif_hooks` of bumpalo (off by default)",
            "enable": "the engine crates depend on bumpalo by path=/repo with features [collections, boxed, allocator-api2, std, verif_hooks]",
            "baseline_off_cmd": "cd /repo && cargo test --workspace --no-fail-fast --offline",
            "source_commits": [HOOK_COMMIT],
            "add_only": True,
        },
        "engines": [
            {"name": "bumpmc", "path": "/verif/engine/bumpmc", "serves_properties": sorted(CHECKS), "kind_free_text": "own explicit-state explorer: level-synchronous BFS over histories re-executed on the real crate under a controlled global allocator"},
        ] + ENGINES,
        "checks": checks,
        "not_applicable": [{"property_id": p, "reason": r} for p, r in sorted(PENDING.items()) if p not in CHECKS],
        "notes": "All checks rebuild the engines (path dependency on /repo) before exploring. Exit 2 = machinery error, never a verdict. known_findings.json lists recorded and fixed defects.",
    }
    json.dump(m, open(os.path.join(ROOT, "MANIFEST.json"), "w"), indent=1)
    print("MANIFEST.json: %d checks, %d not_applicable" % (len(checks), len(m["not_applicable"])))


COLL_NOTE = ("Trusted base: rustc; std's Vec/String/Box as reference models; the engine's controlled global allocator and drop ledgers; canonical state keys (contents, capacity, arena room, neighbours). "
             "Bounds (length, depth, chain steps, grid sizes) are stated in the evidence file.")
NOTES = {"C05": "Trusted base: rustc's borrow checker and trait solver (the judge); the probe grammar and the reference ownership model are the machinery's own. Nothing is claimed about programs outside the grammar."}
ENGINES = [{"name": "c20_loom", "path": "/verif/engine/c20_loom", "serves_properties": ["C20"], "kind_free_text": "loom 0.7 model of threads each driving its own arena; hook-driven race detection on the shared static"}]

if __name__ == "__main__":
    main()
