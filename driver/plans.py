"""Per-property check plans: which engine jobs decide each property, at which bounds."""
import json, os, subprocess, sys, time

ALL_MA = "1,2,4,8,16"


def arena_job(name, profile, prop, depth, devs, budget, tier, build="release", min_aligns=ALL_MA, max_level=3000000):
    args = ["arena", "--profile", profile, "--prop", str(prop), "--depth", str(depth), "--devs", str(devs), "--budget-s", str(budget), "--tier", tier, "--min-aligns", min_aligns, "--max-level", str(max_level)]
    return {"name": name, "bin": "bumpmc", "profile_build": build, "args": args, "replay_args": ["replay-arena", "--profile", profile, "--depth", str(depth)]}


def grid_job(name, kind, prop, tier, budget=120, slab_mb=8, build="release", threads=None):
    args = ["grid", "--kind", kind, "--prop", str(prop), "--tier", tier, "--budget-s", str(budget), "--slab-mb", str(slab_mb)]
    if threads:
        args += ["--threads", str(threads)]
    return {"name": name, "bin": "bumpmc", "profile_build": build, "args": args, "replay_args": ["replay-grid", "--kind", kind, "--tier", tier, "--slab-mb", str(slab_mb)]}


RULE_GRID = ("exhaustive enumeration of a finite case grid; every case is one independent execution on the code in /repo under the controlled global allocator; "
             "distinct_nontrivial counts distinct observable outcomes (result class, allocator traffic, capacities) over the grid")

ARENA_ASSUME = [
    "the controlled global allocator (Env) classifies chunk requests correctly (self-test at start-up) and its placement classes (exact 2-adic valuation of the base) cover every base alignment a legal allocator may return for alignments up to 4096",
    "addresses are ordinary x86-64 user-space addresses; wrap-around at the ends of the address space and 32-bit targets are not explored",
    "canonical state keys merge only states with identical futures (key = configuration, limit, accounting, per-chunk size/alignment class/finger offset, live-block extents)",
]

RULE_ARENA = ("level-synchronous BFS over operation histories of a real Bump<MIN_ALIGN>; every history is re-executed from scratch on the code in /repo under the controlled global allocator; "
              "a state is non-trivial/distinct when its canonical key (chunk geometry, finger offsets, limit, accounting, live extents) was not seen before; distinct_nontrivial counts distinct observable outcomes of the last step "
              "(result class, allocator requests and answers, capacity afterwards, coverage events)")


def plan(pid, tier):
    q = tier == "quick"
    P = {}
    if pid == "C01":
        jobs = [arena_job("histories-core", "core", 1, 3, 1, 45 if q else 600, tier), arena_job("layerA-every-offset", "layera", 1, 3, 1, 40, tier)]
        if not q:
            jobs = [arena_job("histories-core-d3-dev2", "core", 1, 3, 2, 300, tier), arena_job("histories-core-d4", "core", 1, 4, 1, 500, tier, min_aligns="1,8,16"),
                    arena_job("histories-core-d3-dbg", "core", 1, 3, 1, 200, tier, build="dbg"), arena_job("layerA-every-offset-dev2", "layera", 1, 3, 2, 400, tier)]
        return {"level": "model_checking", "jobs": jobs, "owns_crashes": True, "rule": RULE_ARENA, "assumptions": ARENA_ASSUME,
                "bounds": {"depth": 3 if q else 4, "deviations": 1 if q else 2, "min_align": [1, 2, 4, 8, 16]}, "build_profiles": ("release",) if q else ("release", "dbg")}
    if pid == "C02":
        jobs = [arena_job("histories-core", "core", 2, 3, 1, 45 if q else 600, tier)]
        if not q:
            jobs = [arena_job("histories-core-d3-dev2", "core", 2, 3, 2, 300, tier), arena_job("histories-core-d4", "core", 2, 4, 1, 500, tier, min_aligns="1,8,16")]
        return {"level": "model_checking", "jobs": jobs, "owns_crashes": True, "rule": RULE_ARENA, "assumptions": ARENA_ASSUME, "bounds": {"depth": 3 if q else 4, "deviations": 1 if q else 2}}
    if pid == "C03":
        jobs = [arena_job("histories-ledger", "ledger", 3, 3, 1, 45, tier)] if q else [arena_job("histories-ledger-d3-dev2", "ledger", 3, 3, 2, 300, tier), arena_job("histories-ledger-d4", "ledger", 3, 4, 1, 500, tier, min_aligns="1,8,16")]
        return {"level": "model_checking", "jobs": jobs, "owns_crashes": True, "rule": RULE_ARENA, "assumptions": ARENA_ASSUME, "bounds": {"depth": 3 if q else 4, "deviations": 1 if q else 2}}
    if pid == "C04":
        jobs = [arena_job("histories-core", "core", 4, 3, 1, 45 if q else 600, tier), arena_job("layerA-every-offset", "layera", 4, 3, 1, 40, tier), grid_job("ctor-matrix", "ctor", 4, tier)]
        if not q:
            jobs = [arena_job("histories-core-d3-dev2", "core", 4, 3, 2, 300, tier), arena_job("histories-core-d4", "core", 4, 4, 1, 500, tier, min_aligns="2,8,16"),
                    arena_job("layerA-every-offset-dev2", "layera", 4, 3, 2, 400, tier), grid_job("ctor-matrix", "ctor", 4, tier), grid_job("ctor-matrix-dbg", "ctor", 4, tier, build="dbg")]
        return {"level": "model_checking", "jobs": jobs, "owns_crashes": False, "rule": RULE_ARENA, "assumptions": ARENA_ASSUME, "bounds": {"depth": 3 if q else 4, "deviations": 1 if q else 2},
                "build_profiles": ("release",) if q else ("release", "dbg")}
    if pid == "C06":
        jobs = [arena_job("histories-reset", "reset", 6, 3, 1, 45, tier)] if q else [arena_job("histories-reset-d4", "reset", 6, 4, 1, 500, tier), arena_job("histories-reset-d3-dev2", "reset", 6, 3, 2, 200, tier)]
        return {"level": "model_checking", "jobs": jobs, "owns_crashes": False, "rule": RULE_ARENA, "assumptions": ARENA_ASSUME, "bounds": {"depth": 3 if q else 4, "deviations": 1 if q else 2}}
    if pid == "C07":
        jobs = [arena_job("histories-limit", "limit", 7, 3, 1, 45, tier)] if q else [arena_job("histories-limit-d4", "limit", 7, 4, 1, 500, tier), arena_job("histories-limit-d3-dev2", "limit", 7, 3, 2, 200, tier)]
        return {"level": "model_checking", "jobs": jobs, "owns_crashes": False, "rule": RULE_ARENA, "assumptions": ARENA_ASSUME, "bounds": {"depth": 3 if q else 4, "deviations": 1 if q else 2}}
    if pid == "C08":
        jobs = [arena_job("histories-core", "core", 8, 3, 1, 45, tier)] if q else [arena_job("histories-core-d3-dev2", "core", 8, 3, 2, 300, tier), arena_job("histories-ledger-d4", "ledger", 8, 4, 1, 400, tier, min_aligns="1,16"), arena_job("histories-limit-d4", "limit", 8, 4, 1, 300, tier)]
        return {"level": "model_checking", "jobs": jobs, "owns_crashes": False, "rule": RULE_ARENA, "assumptions": ARENA_ASSUME, "bounds": {"depth": 3 if q else 4, "deviations": 1 if q else 2}}
    if pid == "C09":
        jobs = [arena_job("prefix1-x-final-try", "fallible", 9, 2, 2, 45, tier)] if q else [arena_job("prefix2-x-final-try", "fallible", 9, 3, 2, 900, tier), arena_job("prefix1-dbg", "fallible", 9, 2, 2, 200, tier, build="dbg")]
        return {"level": "fault_enumeration", "jobs": jobs, "owns_crashes": True, "rule": RULE_ARENA + "; faults = Env refusal of the k-th chunk request of the final operation (all k), forced refusal of over-cap / over-aligned requests, allocation limits", "assumptions": ARENA_ASSUME,
                "bounds": {"prefix_depth": 1 if q else 2, "deviations": 2}, "build_profiles": ("release",) if q else ("release", "dbg")}
    if pid == "C10":
        jobs = [arena_job("histories-core", "core", 10, 3, 1, 45, tier), arena_job("uniform-exactness", "uniform", 10, 5, 1, 40, tier)] if q else [
            arena_job("histories-core-d3-dev2", "core", 10, 3, 2, 300, tier), arena_job("histories-core-d4", "core", 10, 4, 1, 500, tier, min_aligns="1,4,16"),
            arena_job("uniform-exactness-d6", "uniform", 10, 6, 1, 500, tier), arena_job("uniform-exactness-d5-dev2", "uniform", 10, 5, 2, 300, tier)]
        return {"level": "model_checking", "jobs": jobs, "owns_crashes": False, "rule": RULE_ARENA, "assumptions": ARENA_ASSUME, "bounds": {"depth": 3 if q else 4, "deviations": 1 if q else 2}}
    if pid == "C11":
        jobs = [arena_job("prefix2-x-initialisers", "init", 11, 3, 1, 45, tier)] if q else [arena_job("prefix3-x-initialisers", "init", 11, 4, 1, 600, tier), arena_job("prefix2-dev2", "init", 11, 3, 2, 300, tier)]
        return {"level": "model_checking", "jobs": jobs, "owns_crashes": False, "rule": RULE_ARENA, "assumptions": ARENA_ASSUME, "bounds": {"depth": 3 if q else 4, "deviations": 1 if q else 2}}
    if pid == "C12":
        jobs = [arena_job("allocator-api", "allocapi", 12, 3, 1, 45, tier)] if q else [arena_job("allocator-api-d4", "allocapi", 12, 4, 1, 700, tier, min_aligns="1,8,16"), arena_job("allocator-api-d3-dev2", "allocapi", 12, 3, 2, 300, tier)]
        return {"level": "model_checking", "jobs": jobs, "owns_crashes": True, "rule": RULE_ARENA, "assumptions": ARENA_ASSUME, "bounds": {"depth": 3 if q else 4, "deviations": 1 if q else 2}}
    if pid == "C18":
        jobs = [grid_job("capacity-compositions", "capacity", 18, tier), grid_job("growth-workloads", "growth", 18, tier, slab_mb=64), arena_job("chunk-capacity-probe", "capprobe", 18, 3, 1, 40, tier)]
        if not q:
            jobs = [grid_job("capacity-compositions", "capacity", 18, tier, budget=600), grid_job("growth-workloads", "growth", 18, tier, budget=600, slab_mb=96, threads=8),
                    arena_job("chunk-capacity-probe-d4", "capprobe", 18, 4, 1, 500, tier, min_aligns="1,8,16"), arena_job("chunk-capacity-probe-d3-dev2", "capprobe", 18, 3, 2, 300, tier)]
        return {"level": "exploration", "jobs": jobs, "owns_crashes": False, "rule": RULE_GRID + "; plus BFS over arena histories with a terminal probe of exactly chunk_capacity() bytes under a refusing allocator",
                "assumptions": ARENA_ASSUME + ["'logarithmic' and 'constant factor' are decided on a finite workload grid (volumes up to 2^18 quick / 2^24 thorough) with loose constants: requests <= 2*log2(V/first chunk)+6, held <= 8*occupied + 8 KiB + 2 max requests"],
                "bounds": {"capacities": "0..=600, 2^k-65..2^k-63 (k=10..20), 4032, 4033, 8128, 8129, 2^16, 2^20", "volume_log2": 18 if q else 24, "probe_depth": 3 if q else 4}}
    if pid == "C19":
        jobs = [grid_job("overflow-boundaries", "overflow", 19, tier)]
        if not q:
            jobs.append(grid_job("overflow-boundaries-dbg", "overflow", 19, tier, build="dbg"))
        return {"level": "exploration", "jobs": jobs, "owns_crashes": True, "rule": RULE_GRID, "assumptions": ["Env refuses every request above 1 MiB, so 'cannot be satisfied' is decidable without touching the OS",
                "counts are taken around usize::MAX/size, isize::MAX/size, isize::MAX rounded by alignment, usize::MAX, and 1 MiB/size; element sizes 0,1,3,8,24,4096 (slices) and 2^20+1, 2^40 (Vec capacity family)"],
                "bounds": {"entry_points": 29, "element_sizes": 7, "count_classes": 16, "min_align": [1, 2, 4, 8, 16]}, "build_profiles": ("release",) if q else ("release", "dbg")}
    if pid == "C20":
        d = 7 if q else 8
        pair = {"name": "pair-interleavings", "bin": "bumpmc", "profile_build": "release", "args": ["pair", "--prop", "20", "--depth", str(d), "--tier", tier, "--budget-s", "40" if q else "600"], "replay_args": ["replay-pair", "--depth", str(d), "--tier", tier]}
        loom = {"name": "loom-schedules", "bin": "c20_loom", "profile_build": "release", "args": ["run", "--tier", tier], "replay_args": ["replay"]}
        return {"level": "model_checking", "jobs": [pair, loom], "owns_crashes": False,
                "rule": "(1) BFS over interleaved histories of 2 (thorough: also 3) real arenas, each with its own allocator slab; every arena's trace is compared with its own sub-history run alone, every footer store reported by the verif_hooks hook must target the acting arena's own chunks; (2) loom explores all schedules (operation granularity, DPOR, no preemption bound) of 2-3 threads each driving its own arena and of arena hand-over; the shared static is a loom UnsafeCell so unsynchronised conflicting accesses are reported as data races",
                "assumptions": ["bumpalo contains no atomics: schedules are explored at operation granularity; races are decided by happens-before over instrumented accesses (footer stores via the hook, reads of the shared static by chunk-less arenas)", "a store through a site without the hook would be invisible to loom (the sequential pair model still detects a changed static)"],
                "bounds": {"pair_depth": d, "arenas": 2 if q else 3, "loom_threads": "2-3", "loom_ops_per_thread": "1-3 (thorough: up to 4)"}}
    return None


def crash_signature(c):
    """A short structural signature of a crashing history (last action kind)."""
    d = c.get("described") or {}
    steps = d.get("steps") or []
    if steps:
        act = steps[-1].get("act", "")
        return act.split(" ")[0].split("{")[0].strip() or "unknown"
    return "constructor"


def run_external(job, pid, tier, root):
    raise RuntimeError("no external jobs yet")


def replay_external(rec, root):
    raise RuntimeError("no external jobs yet")


def setup_extra(root):
    pass
