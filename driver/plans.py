"""Per-property check plans: which engine jobs decide each property, at which bounds."""
import json, os, subprocess, sys, time

ALL_MA = "1,2,4,8,16"


def arena_job(name, profile, prop, depth, devs, budget, tier, build="release", min_aligns=ALL_MA, max_level=3000000, slab_mb=None):
    args = ["arena", "--profile", profile, "--prop", str(prop), "--depth", str(depth), "--devs", str(devs), "--budget-s", str(budget), "--tier", tier, "--min-aligns", min_aligns, "--max-level", str(max_level)]
    rargs = ["replay-arena", "--profile", profile, "--depth", str(depth)]
    if slab_mb:
        args += ["--slab-mb", str(slab_mb)]
        rargs += ["--slab-mb", str(slab_mb)]
    return {"name": name, "bin": "bumpmc", "profile_build": build, "args": args, "replay_args": rargs}


def grid_job(name, kind, prop, tier, budget=120, slab_mb=8, build="release", threads=None):
    args = ["grid", "--kind", kind, "--prop", str(prop), "--tier", tier, "--budget-s", str(budget), "--slab-mb", str(slab_mb)]
    if threads:
        args += ["--threads", str(threads)]
    return {"name": name, "bin": "bumpmc", "profile_build": build, "args": args, "replay_args": ["replay-grid", "--kind", kind, "--tier", tier, "--slab-mb", str(slab_mb)]}


RULE_GRID = ("exhaustive enumeration of a finite case grid; every case is one independent execution on the code in /repo under the controlled global allocator; "
             "distinct_nontrivial counts distinct observable outcomes (result class, allocator traffic, capacities) over the grid")

ARENA_ASSUME = [
    "the controlled global allocator (Env) classifies chunk requests correctly (self-test at start-up) and its placement classes (exact 2-adic valuation of the base) cover every base alignment a legal allocator may return for alignments up to 4096",
    "addresses are ordinary x86-64 user-space addresses; wrap-around at the ends of the address space and 32-bit targets are not explored",
    "canonical state keys merge only states with identical futures (key = configuration, limit, accounting, per-chunk size/alignment class/finger offset, live-block extents)",
]

RULE_ARENA = ("level-synchronous BFS over operation histories of a real Bump<MIN_ALIGN>; every history is re-executed from scratch on the code in /repo under the controlled global allocator; "
              "a state is non-trivial/distinct when its canonical key (chunk geometry, finger offsets, limit, accounting, live extents) was not seen before; distinct_nontrivial counts distinct observable outcomes of the last step "
              "(result class, allocator requests and answers, capacity afterwards, coverage events)")


def plan(pid, tier):
    q = tier == "quick"
    P = {}
    if pid == "C01":
        jobs = [arena_job("histories-core", "core", 1, 3, 1, 45 if q else 600, tier), arena_job("layerA-every-offset", "layera", 1, 3, 1, 40, tier), arena_job("allocator-api-sweep", "apisweep", 1, 5, 0, 40, tier)]
        if not q:
            jobs = [arena_job("histories-core-d3-dev2", "core", 1, 3, 2, 300, tier), arena_job("histories-core-d4", "core", 1, 4, 1, 500, tier, min_aligns="1,8,16"),
                    arena_job("histories-core-d3-dbg", "core", 1, 3, 1, 200, tier, build="dbg"), arena_job("layerA-every-offset-dev2", "layera", 1, 3, 2, 400, tier), arena_job("allocator-api-sweep-dev1", "apisweep", 1, 5, 1, 600, tier)]
        sc = [{"name": "stateright-crosscheck-core-d2", "bin": "xcheck", "args": ["--profile", "core", "--depth", "2"]}]
        if not q:
            sc += [{"name": "stateright-crosscheck-core-d3", "bin": "xcheck", "args": ["--profile", "core", "--depth", "3"]}, {"name": "stateright-crosscheck-reset-d3", "bin": "xcheck", "args": ["--profile", "reset", "--depth", "3"]},
                   {"name": "stateright-crosscheck-allocapi-d3", "bin": "xcheck", "args": ["--profile", "allocapi", "--depth", "3"]}, {"name": "stateright-crosscheck-limit-d3", "bin": "xcheck", "args": ["--profile", "limit", "--depth", "3"]}]
        jobs.append(arena_job("deep-narrow-d5" if q else "deep-narrow-d6", "deep", 1, 5 if q else 6, 1, 40 if q else 900, tier, min_aligns="1,8,16"))
        jobs.append(arena_job("scale-d2" if q else "scale-d3", "scale", 1, 2 if q else 3, 1, 40 if q else 600, tier, min_aligns="1,16", slab_mb=16))
        return {"level": "model_checking", "jobs": jobs, "owns_crashes": True, "rule": RULE_ARENA, "assumptions": ARENA_ASSUME, "selfchecks": sc,
                "bounds": {"depth": 3 if q else 4, "deviations": 1 if q else 2, "min_align": [1, 2, 4, 8, 16]}, "build_profiles": ("release",) if q else ("release", "dbg")}
    if pid == "C02":
        jobs = [arena_job("histories-core", "core", 2, 3, 1, 45 if q else 600, tier), arena_job("allocator-api-sweep", "apisweep", 2, 5, 0, 40, tier)]
        if not q:
            jobs = [arena_job("histories-core-d3-dev2", "core", 2, 3, 2, 300, tier), arena_job("histories-core-d4", "core", 2, 4, 1, 500, tier, min_aligns="1,8,16"), arena_job("allocator-api-sweep-dev1", "apisweep", 2, 5, 1, 600, tier)]
        jobs.append(arena_job("deep-narrow-d5" if q else "deep-narrow-d6", "deep", 2, 5 if q else 6, 1, 40 if q else 900, tier, min_aligns="1,8,16"))
        jobs.append(grid_job("vec-bulk-writes-at-scale", "vecgrowth", 2, tier, slab_mb=64))
        return {"level": "model_checking", "jobs": jobs, "owns_crashes": True, "rule": RULE_ARENA, "assumptions": ARENA_ASSUME, "bounds": {"depth": 3 if q else 4, "deviations": 1 if q else 2}}
    if pid == "C03":
        jobs = [arena_job("histories-ledger", "ledger", 3, 3, 1, 45, tier)] if q else [arena_job("histories-ledger-d3-dev2", "ledger", 3, 3, 2, 300, tier), arena_job("histories-ledger-d4", "ledger", 3, 4, 1, 500, tier, min_aligns="1,8,16")]
        jobs.append(arena_job("deep-narrow-d5" if q else "deep-narrow-d6", "deep", 3, 5 if q else 6, 1, 40 if q else 900, tier, min_aligns="1,8,16"))
        jobs.append(arena_job("scale-d2" if q else "scale-d3", "scale", 3, 2 if q else 3, 1, 40 if q else 600, tier, min_aligns="1,16", slab_mb=16))
        return {"level": "model_checking", "jobs": jobs, "owns_crashes": True, "rule": RULE_ARENA, "assumptions": ARENA_ASSUME, "bounds": {"depth": 3 if q else 4, "deviations": 1 if q else 2}}
    if pid == "C04":
        jobs = [arena_job("histories-core", "core", 4, 3, 1, 45 if q else 600, tier), arena_job("layerA-every-offset", "layera", 4, 3, 1, 40, tier), grid_job("ctor-matrix", "ctor", 4, tier), arena_job("allocator-api-sweep", "apisweep", 4, 5, 0, 40, tier)]
        if not q:
            jobs = [arena_job("histories-core-d3-dev2", "core", 4, 3, 2, 300, tier), arena_job("histories-core-d4", "core", 4, 4, 1, 500, tier, min_aligns="2,8,16"),
                    arena_job("layerA-every-offset-dev2", "layera", 4, 3, 2, 400, tier), grid_job("ctor-matrix", "ctor", 4, tier), grid_job("ctor-matrix-dbg", "ctor", 4, tier, build="dbg"), arena_job("allocator-api-sweep-dev1", "apisweep", 4, 5, 1, 600, tier)]
        jobs.append(arena_job("scale-d2" if q else "scale-d3", "scale", 4, 2 if q else 3, 1, 40 if q else 600, tier, min_aligns="1,16", slab_mb=16))
        return {"level": "model_checking", "jobs": jobs, "owns_crashes": False, "rule": RULE_ARENA, "assumptions": ARENA_ASSUME, "bounds": {"depth": 3 if q else 4, "deviations": 1 if q else 2},
                "build_profiles": ("release",) if q else ("release", "dbg")}
    if pid == "C06":
        jobs = [arena_job("histories-reset", "reset", 6, 3, 1, 45, tier)] if q else [arena_job("histories-reset-d4", "reset", 6, 4, 1, 500, tier), arena_job("histories-reset-d3-dev2", "reset", 6, 3, 2, 200, tier)]
        jobs.append(arena_job("deep-narrow-d5" if q else "deep-narrow-d6", "deep", 6, 5 if q else 6, 1, 40 if q else 900, tier, min_aligns="1,8,16"))
        jobs.append(arena_job("scale-d2" if q else "scale-d3", "scale", 6, 2 if q else 3, 1, 40 if q else 600, tier, min_aligns="1,16", slab_mb=16))
        return {"level": "model_checking", "jobs": jobs, "owns_crashes": False, "rule": RULE_ARENA, "assumptions": ARENA_ASSUME, "bounds": {"depth": 3 if q else 4, "deviations": 1 if q else 2}}
    if pid == "C07":
        jobs = [arena_job("histories-limit", "limit", 7, 3, 1, 45, tier), arena_job("histories-limit-d4", "limit", 7, 4, 1, 45, tier, min_aligns="1,16")] if q else [arena_job("histories-limit-d4", "limit", 7, 4, 1, 500, tier), arena_job("histories-limit-d3-dev2", "limit", 7, 3, 2, 200, tier)]
        jobs.append(arena_job("deep-narrow-d5" if q else "deep-narrow-d6", "deep", 7, 5 if q else 6, 1, 40 if q else 900, tier, min_aligns="1,8,16"))
        jobs.append(arena_job("scale-d2" if q else "scale-d3", "scale", 7, 2 if q else 3, 1, 40 if q else 600, tier, min_aligns="1,16", slab_mb=16))
        return {"level": "model_checking", "jobs": jobs, "owns_crashes": False, "rule": RULE_ARENA, "assumptions": ARENA_ASSUME, "bounds": {"depth": 3 if q else 4, "deviations": 1 if q else 2}}
    if pid == "C08":
        jobs = [arena_job("histories-core", "core", 8, 3, 1, 45, tier)] if q else [arena_job("histories-core-d3-dev2", "core", 8, 3, 2, 300, tier), arena_job("histories-ledger-d4", "ledger", 8, 4, 1, 400, tier, min_aligns="1,16"), arena_job("histories-limit-d4", "limit", 8, 4, 1, 300, tier)]
        jobs.append(arena_job("deep-narrow-d5" if q else "deep-narrow-d6", "deep", 8, 5 if q else 6, 1, 40 if q else 900, tier, min_aligns="1,8,16"))
        jobs.append(arena_job("scale-d2" if q else "scale-d3", "scale", 8, 2 if q else 3, 1, 40 if q else 600, tier, min_aligns="1,16", slab_mb=16))
        return {"level": "model_checking", "jobs": jobs, "owns_crashes": False, "rule": RULE_ARENA, "assumptions": ARENA_ASSUME, "bounds": {"depth": 3 if q else 4, "deviations": 1 if q else 2}}
    if pid == "C09":
        jobs = [arena_job("prefix1-x-final-try", "fallible", 9, 2, 2, 45, tier)] if q else [arena_job("prefix2-x-final-try", "fallible", 9, 3, 2, 900, tier), arena_job("prefix1-dbg", "fallible", 9, 2, 2, 200, tier, build="dbg")]
        jobs.append(arena_job("scale-d2" if q else "scale-d3", "scale", 9, 2 if q else 3, 1, 40 if q else 600, tier, min_aligns="1,16", slab_mb=16))
        return {"level": "fault_enumeration", "jobs": jobs, "owns_crashes": True, "rule": RULE_ARENA + "; faults = up to 2 allocator-answer deviations per final operation, each at any request index k: refuse request k, refuse request k and every later one (fail everything), refuse every request above 2^12 bytes from request k on (thorough: 2^9, 2^12, 2^16), grant at valuation 12; forced refusal of over-cap / over-aligned requests, allocation limits", "assumptions": ARENA_ASSUME,
                "bounds": {"prefix_depth": 1 if q else 2, "deviations": 2}, "build_profiles": ("release",) if q else ("release", "dbg")}
    if pid == "C10":
        jobs = [arena_job("histories-core", "core", 10, 3, 1, 45, tier), arena_job("uniform-exactness", "uniform", 10, 5, 1, 40, tier)] if q else [
            arena_job("histories-core-d3-dev2", "core", 10, 3, 2, 300, tier), arena_job("histories-core-d4", "core", 10, 4, 1, 500, tier, min_aligns="1,4,16"),
            arena_job("uniform-exactness-d6", "uniform", 10, 6, 1, 500, tier), arena_job("uniform-exactness-d5-dev2", "uniform", 10, 5, 2, 300, tier)]
        jobs.append(arena_job("deep-narrow-d5" if q else "deep-narrow-d6", "deep", 10, 5 if q else 6, 1, 40 if q else 900, tier, min_aligns="1,8,16"))
        jobs.append(arena_job("scale-d2" if q else "scale-d3", "scale", 10, 2 if q else 3, 1, 40 if q else 600, tier, min_aligns="1,16", slab_mb=16))
        return {"level": "model_checking", "jobs": jobs, "owns_crashes": False, "rule": RULE_ARENA, "assumptions": ARENA_ASSUME, "bounds": {"depth": 3 if q else 4, "deviations": 1 if q else 2}}
    if pid == "C11":
        jobs = [arena_job("prefix2-x-initialisers", "init", 11, 3, 1, 45, tier)] if q else [arena_job("prefix3-x-initialisers", "init", 11, 4, 1, 600, tier), arena_job("prefix2-dev2", "init", 11, 3, 2, 300, tier)]
        jobs.append(arena_job("scale-d2" if q else "scale-d3", "scale", 11, 2 if q else 3, 1, 40 if q else 600, tier, min_aligns="1,16", slab_mb=16))
        return {"level": "model_checking", "jobs": jobs, "owns_crashes": False, "rule": RULE_ARENA, "assumptions": ARENA_ASSUME, "bounds": {"depth": 3 if q else 4, "deviations": 1 if q else 2}}
    if pid == "C12":
        jobs = [arena_job("allocator-api", "allocapi", 12, 3, 1, 45, tier), arena_job("allocator-api-sweep", "apisweep", 12, 5, 0, 40, tier), coll_job("api2-vec-vs-global-allocator", "vec", 12, 3, 4, tier, 40, container="api2")] if q else [coll_job("api2-vec-vs-global-allocator", "vec", 12, 4, 5, tier, 600, container="api2"), arena_job("allocator-api-d4", "allocapi", 12, 4, 1, 700, tier, min_aligns="1,8,16"), arena_job("allocator-api-d3-dev2", "allocapi", 12, 3, 2, 300, tier), arena_job("allocator-api-sweep-dev1", "apisweep", 12, 5, 1, 600, tier)]
        return {"level": "model_checking", "jobs": jobs, "owns_crashes": True, "rule": RULE_ARENA, "assumptions": ARENA_ASSUME, "bounds": {"depth": 3 if q else 4, "deviations": 1 if q else 2}}
    if pid in ("C13", "C14", "C15", "C16", "C17"):
        return coll_plan(pid, tier)
    if pid == "C05":
        return {"level": "exploration", "jobs": [{"name": "probe-programs-vs-rustc", "kind": "external", "args": []}], "owns_crashes": False,
                "rule": "enumerate every client program of a statement grammar (create one or two holders of 12 kinds carrying the arena lifetime; use / drop them; 7 arena events: reset, chunk iteration, drop, move, allocate, move into a spawned thread, share with a scoped thread) up to the length bound, plus fixed escape / positive / auto-trait probes; a reference ownership model predicts accept or reject and rustc's verdict (cargo check diagnostics mapped to probe functions) is compared for every program; a program is non-trivial when rustc rejects it",
                "assumptions": ["rustc 1.95's borrow checker and trait solver are the judge; the reference model (loans live to last use, or to scope end for types with drop glue) is only the expectation", "programs outside the grammar (generic clients, unsafe code, other statement kinds) are not covered"],
                "bounds": {"statements_after_creation": 2 if q else 3, "holders": 2, "holder_kinds": 12, "events": 7}}
    if pid == "C18":
        jobs = [grid_job("capacity-compositions", "capacity", 18, tier), grid_job("growth-workloads", "growth", 18, tier, slab_mb=24, threads=8), arena_job("chunk-capacity-probe", "capprobe", 18, 3, 1, 40, tier), grid_job("vec-string-capacity", "vecgrowth", 18, tier, slab_mb=64)]
        if not q:
            jobs = [grid_job("capacity-compositions", "capacity", 18, tier, budget=600), grid_job("growth-workloads", "growth", 18, tier, budget=900, slab_mb=192, threads=8),
                    arena_job("chunk-capacity-probe-d4", "capprobe", 18, 4, 1, 500, tier, min_aligns="1,8,16"), arena_job("chunk-capacity-probe-d3-dev2", "capprobe", 18, 3, 2, 300, tier),
                    grid_job("vec-string-capacity", "vecgrowth", 18, tier, slab_mb=64)]
        jobs.append(grid_job("chunk-size-under-size-dependent-refusal", "retry", 18, tier))
        return {"level": "exploration", "jobs": jobs, "owns_crashes": False, "rule": RULE_GRID + "; plus BFS over arena histories with a terminal probe of exactly chunk_capacity() bytes under a refusing allocator; plus a grid of 270 cases (3 minimum alignments x refusal thresholds 2^9..2^18 x 3 requests x 3 constructors) in which the newest chunk is filled and the allocator refuses a doubled chunk but would grant one of the same size: the chunk obtained must not be smaller than the last",
                "assumptions": ARENA_ASSUME + ["'logarithmic' and 'constant factor' are decided on a finite workload grid (volumes up to 2^22 quick / 2^26 thorough) with loose constants: requests <= 2*log2(V/first chunk)+6, held <= 8*occupied + 8 KiB + 2 max requests"],
                "bounds": {"capacities": "0..=600, 2^k-65..2^k-63 (k=10..20), 4032, 4033, 8128, 8129, 2^16, 2^20", "volume_log2": 22 if q else 26, "probe_depth": 3 if q else 4}}
    if pid == "C19":
        jobs = [grid_job("overflow-boundaries", "overflow", 19, tier)]
        if not q:
            jobs.append(grid_job("overflow-boundaries-dbg", "overflow", 19, tier, build="dbg"))
        return {"level": "exploration", "jobs": jobs, "owns_crashes": True, "rule": RULE_GRID, "assumptions": ["Env refuses every request above 1 MiB, so 'cannot be satisfied' is decidable without touching the OS",
                "counts are taken around usize::MAX/size, isize::MAX/size, isize::MAX rounded by alignment, usize::MAX, and 1 MiB/size; element sizes 0,1,3,8,24,4096 (slices) and 2^20+1, 2^40 (Vec capacity family)"],
                "bounds": {"entry_points": 29, "element_sizes": 7, "count_classes": 16, "min_align": [1, 2, 4, 8, 16]}, "build_profiles": ("release",) if q else ("release", "dbg")}
    if pid == "C20":
        d = 7 if q else 8
        pair = {"name": "pair-interleavings", "bin": "bumpmc", "profile_build": "release", "args": ["pair", "--prop", "20", "--depth", str(d), "--devs", "1", "--tier", tier, "--budget-s", "40" if q else "900"], "replay_args": ["replay-pair", "--depth", str(d), "--tier", tier]}
        dh = 5 if q else 6
        pairh = {"name": "pair-with-a-20MiB-arena", "bin": "bumpmc", "profile_build": "release", "args": ["pair", "--prop", "20", "--depth", str(dh), "--devs", "0", "--tier", tier, "--budget-s", "40" if q else "600", "--slab-mb", "48", "--huge", "1"], "replay_args": ["replay-pair", "--depth", str(dh), "--tier", tier, "--slab-mb", "48", "--huge", "1"]}
        iso = {"name": "fresh-process-isolation", "bin": "bumpmc", "profile_build": "release", "args": ["isolation", "--tier", tier], "replay_args": ["replay-isolation", "--tier", tier]}
        loom = {"name": "loom-schedules", "bin": "c20_loom", "profile_build": "release", "args": ["run", "--tier", tier], "replay_args": ["replay"]}
        # the fresh-process differential runs first: if executions in one process are not independent of each
        # other, in-process exploration (which re-executes histories in one process) is not meaningful
        hop = arena_job("thread-hand-over", "deephop", 20, 3 if q else 5, 0, 40 if q else 600, tier, min_aligns="1,16")
        return {"level": "model_checking", "jobs": [iso, grid_job("containers-of-two-arenas", "crossarena", 20, tier), pair, pairh, hop, loom], "owns_crashes": False, "stop_after_violating_job": True,
                "rule": "(0) fresh-process differential: every probe history of an arena must give the same trace in a process where another arena first ran any prefix history (incl. allocator refusals) as in a process where nothing ran before (catches coupling through process-wide statics); (1) BFS over interleaved histories of 2 (thorough: also 3) real arenas, each with its own allocator slab; every arena's trace is compared with its own sub-history run alone, every footer store reported by the verif_hooks hook must target the acting arena's own chunks; (2) loom explores all schedules (operation granularity, DPOR, no preemption bound) of 2-3 threads each driving its own arena and of arena hand-over; the shared static is a loom UnsafeCell so unsynchronised conflicting accesses are reported as data races; (3) grid of 960 cases in which vectors of two arenas (or of one) meet in append: 6 destination shapes x 4 donor shapes x 5 element sizes x growth of 0/1/40/1000 elements afterwards; an idle arena's allocated_bytes / chunk_capacity / allocated_bytes_including_metadata must not change",
                "assumptions": ["bumpalo contains no atomics: schedules are explored at operation granularity; races are decided by happens-before over instrumented accesses (footer stores via the hook, reads of the shared static by chunk-less arenas)", "a store through a site without the hook would be invisible to loom (the sequential pair model still detects a changed static)"],
                "bounds": {"pair_depth": d, "arenas": 2 if q else 3, "loom_threads": "2-3", "loom_ops_per_thread": "1-3 (thorough: up to 4)"}}
    return None


def coll_job(name, cmd, prop, depth, max_len, tier, budget, mode="diff", build="release", container=None):
    args = [cmd, "--prop", str(prop), "--depth", str(depth), "--max-len", str(max_len), "--tier", tier, "--budget-s", str(budget), "--mode", mode]
    rargs = ["replay-" + cmd, "--depth", str(depth), "--max-len", str(max_len), "--tier", tier, "--mode", mode]
    if container:
        args += ["--container", container]
        rargs += ["--container", container]
    return {"name": name, "bin": "bumpmc", "profile_build": build, "args": args, "replay_args": rargs}


COLL_ASSUME = [
    "std::vec::Vec / std::string::String / std::boxed::Box of the installed toolchain (rustc 1.95) are the reference models; bumpalo's drain_filter is compared with extract_if wrapped so that dropping the iterator exhausts it (the contract bumpalo documents)",
    "elements carry harness labels; equality of destructor runs is judged on labels (multiset), not on drop order",
    "size arguments are kept to those where std panics before allocating (huge-size behaviour is C19's)",
] + ARENA_ASSUME[:1]

RULE_COLL = ("level-synchronous BFS over programs of collection operations; every program is re-executed from scratch on a real arena-backed container and on the std reference; "
             "states are keyed by contents, length, capacity, arena chunk room, whether the buffer is the arena's last block, and neighbour sizes; arguments (indices, ranges) are generated relative to the current length")


def coll_plan(pid, tier):
    q = tier == "quick"
    if pid == "C13":
        jobs = [coll_job("vec-vs-std", "vec", 13, 4, 4, tier, 45), coll_job("vec-vs-std-long", "vec", 13, 2, 20, tier, 30), coll_job("vec-vs-std-scale", "vec", 13, 2, 260, tier, 40)] if q else [coll_job("vec-vs-std-len6", "vec", 13, 5, 6, tier, 900), coll_job("vec-vs-std-long", "vec", 13, 3, 40, tier, 300), coll_job("vec-vs-std-scale", "vec", 13, 3, 260, tier, 600), coll_job("vec-vs-std-len4-dbg", "vec", 13, 4, 4, tier, 300, build="dbg")]
        jobs.append(grid_job("vec-capacity-at-scale", "vecgrowth", 13, tier, slab_mb=64))
        jobs.append(grid_job("append-meets-another-vector", "crossarena", 13, tier))
        return {"level": "model_checking", "jobs": jobs, "owns_crashes": True, "rule": RULE_COLL, "assumptions": COLL_ASSUME, "bounds": {"max_len": 4 if q else 6, "depth": 4 if q else 5, "long_job": "vectors of 9 and 17 elements (up to 20; thorough 40) x 1 (thorough 2) further operations", "element_types": ["D", "u8", "Z"]}, "build_profiles": ("release",) if q else ("release", "dbg")}
    if pid == "C15":
        jobs = [coll_job("vec-drop-ledger", "vec", 15, 4, 4, tier, 45), coll_job("vec-drop-ledger-long", "vec", 15, 2, 20, tier, 30), coll_job("vec-drop-ledger-scale", "vec", 15, 2, 260, tier, 40), grid_job("box-chains", "box", 15, tier)] if q else [coll_job("vec-drop-ledger-len6", "vec", 15, 5, 6, tier, 900), coll_job("vec-drop-ledger-long", "vec", 15, 3, 40, tier, 300), coll_job("vec-drop-ledger-scale", "vec", 15, 3, 260, tier, 600), grid_job("box-chains", "box", 15, tier)]
        return {"level": "model_checking", "jobs": jobs, "owns_crashes": False, "rule": RULE_COLL + "; Box: exhaustive conversion chains", "assumptions": COLL_ASSUME, "bounds": {"max_len": 4 if q else 6, "depth": 4 if q else 5, "box_chain_steps": 3 if q else 4}}
    if pid == "C14":
        jobs = [coll_job("string-vs-std", "str", 14, 3, 3, tier, 45), grid_job("decoder-grids", "decoders", 14, tier, budget=100)] if q else [coll_job("string-vs-std-4chars", "str", 14, 4, 4, tier, 900), grid_job("decoder-grids", "decoders", 14, tier, budget=3000), coll_job("string-vs-std-dbg", "str", 14, 3, 3, tier, 300, build="dbg")]
        return {"level": "model_checking", "jobs": jobs, "owns_crashes": True, "rule": RULE_COLL + "; decoders: exhaustive grids (all byte strings of length <= 3 (thorough 4); class-alphabet strings to length 5 (thorough 7); UTF-16 unit classes to length 6; long inputs with every sequence at each offset around the 4/8/64 KiB marks; end-of-input grid: 0..=40 ASCII bytes + sequence + 0..=8 ASCII bytes)", "assumptions": COLL_ASSUME,
                "bounds": {"max_chars": 3 if q else 4, "depth": 3 if q else 4, "byte_strings_len": 3 if q else 4, "class_strings_len": 5 if q else 7}, "build_profiles": ("release",) if q else ("release", "dbg")}
    if pid == "C16":
        jobs = [coll_job("vec-panic-points", "vec", 16, 2, 4, tier, 45, mode="faults"), coll_job("string-panic-points", "str", 16, 2, 4, tier, 30, mode="faults"), grid_job("box-drop-panics", "box", 16, tier), arena_job("arena-callback-panics", "panics", 16, 2, 0, 40, tier)]
        if not q:
            jobs = [coll_job("vec-panic-points-len5", "vec", 16, 3, 5, tier, 900, mode="faults"), coll_job("string-panic-points", "str", 16, 3, 4, tier, 300, mode="faults"), grid_job("box-drop-panics", "box", 16, tier), arena_job("arena-callback-panics-d3", "panics", 16, 3, 0, 300, tier)]
        return {"level": "fault_enumeration", "jobs": jobs, "owns_crashes": True, "rule": RULE_COLL + "; faults: for every container state (all value patterns up to the length bound, optionally after one prior operation) x every operation that calls user code x every invocation index of that callback as the single panic point",
                "assumptions": COLL_ASSUME + ["a panic injected while the thread is already unwinding is not a case (the language aborts); leaks are allowed"], "bounds": {"max_len": 4 if q else 5, "prefix_ops": 1 if q else 2, "fault_indices": "0..2*len+4"}}
    if pid == "C17":
        jobs = [grid_job("box-chains", "box", 17, tier)]
        if not q:
            jobs.append(grid_job("box-chains-dbg", "box", 17, tier, build="dbg"))
        return {"level": "model_checking", "jobs": jobs, "owns_crashes": True, "rule": "exhaustive enumeration of conversion chains (constructor x up to 3 (thorough 4) ownership-preserving steps x terminal) over 12 value families, executed on bumpalo::boxed::Box and std::boxed::Box; observations, destructor ledgers and the arena's ledger are compared; plus a grid over every forwarding impl (comparisons, Hash, Hasher::write_*, Display/Debug under format specs, iterator method pairs, Future, Borrow/AsRef, pin_in, Default) on value pairs",
                "assumptions": COLL_ASSUME, "bounds": {"chain_steps": 3 if q else 4, "families": 12, "forwarding_cases": 174}, "build_profiles": ("release",) if q else ("release", "dbg")}
    return None


def crash_signature(c):
    """A short structural signature of a crashing history (last action kind)."""
    d = c.get("described") or {}
    steps = d.get("steps") or []
    if steps:
        act = steps[-1].get("act", "")
        return act.split(" ")[0].split("{")[0].strip() or "unknown"
    return "constructor"


def run_external(job, pid, tier, root):
    import c05
    r = c05.run(tier, root)
    if r.get("machinery"):
        print("MACHINERY-ERROR: C05 probes: " + r["machinery"], flush=True)
        sys.exit(2)
    viol = []
    seen = set()
    for v in r["violations"]:
        if v["key"] in seen:
            continue
        seen.add(v["key"])
        v = dict(v)
        v["hist_hex"] = None
        v["history"] = {"program": v["detail"], "source": v["probe_source"]}
        viol.append(v)
    nontrivial = r["rejected"] + sum(1 for _ in range(0))
    return {"states": 0, "transitions": 0, "executions": r["programs"], "distinct_outcomes": r["rejected"], "violations": viol, "violations_total": len(r["violations"]), "caps_hit": [], "coverage_events": {"accepted_by_rustc": r["accepted"], "rejected_by_rustc": r["rejected"]},
            "samples": r["samples"], "wall_s": r["wall_s"], "extra": {"engine": "c05 probe generator + rustc", "nonborrow_errors": r.get("nonborrow_errors")}}


def replay_external(rec, root):
    import c05
    src = rec.get("history", {}).get("source")
    if not src:
        print("replay file has no probe source")
        return 2
    d, ranges = c05.build_crate(root, "c05_replay", [("probe", src)])
    rc, errs, stderr = c05.cargo_check(d)
    print("\n".join(src))
    print("rustc verdict:", "rejected: " + "; ".join("%s %s" % (e["code"], e["text"]) for e in errs) if errs else "accepted")
    print("expected:", rec.get("clause"))
    hit = (rec.get("clause") == "accepted_but_must_be_rejected" and not errs) or (rec.get("clause") == "rejected_but_must_be_accepted" and errs)
    print("REPRODUCED" if hit else "NOT-REPRODUCED")
    return 1 if hit else 0


def setup_extra(root):
    pass
