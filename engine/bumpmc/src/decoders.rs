//! C14 decoder grids (from_utf8, from_utf8_lossy_in, from_utf16_in against std on exhaustive byte /
//! unit strings) and C18(d) Vec/String capacity behaviour (reserved capacity is stable; growth is geometric).

use crate::env::{Callback, ExecEnv, Reenter};
use crate::grid::Case;
use crate::mc::Violation;
use crate::util::{arena_op, arena_op_cont, Hasher128};
use bumpalo::collections::{String as BString, Vec as BVec};
use bumpalo::Bump;

/// One byte per transition class of the UTF-8 decoding automaton.
pub const CLASSES: [u8; 26] = [0x00, 0x41, 0x7F, 0x80, 0x8F, 0x90, 0x9F, 0xA0, 0xBF, 0xC0, 0xC1, 0xC2, 0xDF, 0xE0, 0xE1, 0xEC, 0xED, 0xEE, 0xEF, 0xF0, 0xF1, 0xF3, 0xF4, 0xF5, 0xF8, 0xFF];
pub const UNITS: [u16; 9] = [0x0041, 0x00E9, 0xD7FF, 0xD800, 0xDBFF, 0xDC00, 0xDFFF, 0xE000, 0xFFFF];

pub fn dec_cases(t: bool) -> Vec<Case> {
    let mut c = Vec::new();
    // which 0: all byte strings of length <= 3 starting with byte a (a = 0 also covers the empty string)
    for a in 0..=255u8 {
        c.push(Case::Dec { which: 0, a, b: 0, c: 0 });
    }
    if t {
        // which 2: all byte strings of length 4 starting with (a, b)
        for a in 0..=255u8 {
            for b in 0..=255u8 {
                c.push(Case::Dec { which: 2, a, b, c: 0 });
            }
        }
    }
    // which 1: class alphabet, strings of length <= 5 (thorough: exactly 6 and 7 as well) with prefix (a, b[, c])
    for a in 0..26u8 {
        for b in 0..26u8 {
            c.push(Case::Dec { which: 1, a, b, c: 0 });
            if t {
                for cc in 0..26u8 {
                    c.push(Case::Dec { which: 4, a, b, c: cc });
                }
            }
        }
    }
    // which 3: UTF-16 unit classes, length <= 6, first unit a
    for a in 0..9u8 {
        c.push(Case::Dec { which: 3, a, b: 0, c: 0 });
    }
    // which 21: decoders on long inputs: a multi-byte / invalid sequence placed at every offset around the 4 KiB,
    // 8 KiB and 64 KiB marks of an otherwise ASCII input (a: mark, b: sequence, c: unused; all 12 offsets inside)
    for a in 0..3u8 {
        for b in 0..LONG_SEQS.len() as u8 {
            c.push(Case::Dec { which: 21, a, b, c: 0 });
        }
    }
    // which 22: end-of-input grid: an ASCII prefix of a bytes (0..=40), then one of the sequences, then 0..=8 ASCII
    // bytes: every (length mod 8, position inside the last word) combination of a word-at-a-time scanner
    for a in 0..=40u8 {
        c.push(Case::Dec { which: 22, a, b: 0, c: 0 });
    }
    // which 20: long texts (a: text shape, b: operation, c: position class); see `run_long_text`
    for a in 0..LONG_SHAPES as u8 {
        for b in 0..LONG_OPS.len() as u8 {
            for cc in 0..LONG_POS as u8 {
                c.push(Case::Dec { which: 20, a, b, c: cc });
            }
        }
    }
    c
}

const LONG_SEQS: [&[u8]; 10] = [&[0xF0, 0x9F, 0x98, 0x80], &[0xE2, 0x82, 0xAC], &[0xC3, 0xA9], &[0xF0, 0x9F, 0x98], &[0xFF], &[0xC0, 0x80], &[0xED, 0xA0, 0x80], &[0xF4, 0x90, 0x80, 0x80], &[0xE2, 0x82], &[0x80, 0x80, 0xF0, 0x9F, 0x98, 0x80]];
const LONG_SHAPES: usize = 4;
const LONG_POS: usize = 9;
const LONG_OPS: [&str; 16] = ["push", "pop", "insert", "insert_str", "remove", "truncate", "split_off+push both", "drain(p..)", "drain(..p)", "drain(p..q)", "replace_range grow", "replace_range shrink", "retain ascii", "retain non-ascii", "extend chars", "clone+eq+hash"];

fn long_text(shape: u8) -> String {
    // ~1 KiB of text; widths 1..4 in different mixes; a long ASCII run in the middle for shape 3
    let unit = match shape {
        0 => "abcdefghij",
        1 => "aé€😀",
        2 => "😀€é",
        _ => "é",
    };
    let mut t = String::new();
    while t.len() < 1000 {
        t.push_str(unit);
        if shape == 3 && t.len() == 400 {
            for _ in 0..300 {
                t.push('x');
            }
        }
    }
    t
}

/// Byte positions of a position class: boundaries at the start, around the middle, at the end; and one
/// non-boundary / out-of-range position (where the reference panics, the arena string must too).
fn long_pos(t: &str, cls: u8) -> usize {
    let b: Vec<usize> = t.char_indices().map(|x| x.0).chain(std::iter::once(t.len())).collect();
    let m = b.len() / 2;
    match cls {
        0 => 0,
        1 => b[1],
        2 => b[m - 1],
        3 => b[m],
        4 => b[m + 1],
        5 => b[b.len() - 2],
        6 => t.len(),
        7 => if t.is_char_boundary(b[m] + 1) { t.len() + 1 } else { b[m] + 1 },
        _ => t.len() + 1,
    }
}

macro_rules! long_op {
    ($s:expr, $op:expr, $p:expr, $q:expr, $out:expr) => {{
        let s = $s;
        let (p, q) = ($p, $q);
        match $op {
            0 => { s.push('€'); s.push('a'); s.push('😀'); }
            1 => { $out.push(s.pop().map_or(0, |c| c as u64)); $out.push(s.pop().map_or(0, |c| c as u64)); }
            2 => { s.insert(p, 'é'); s.insert(p, 'z'); }
            3 => { s.insert_str(p, "€uro😀"); }
            4 => { $out.push(s.remove(p) as u64); }
            5 => { s.truncate(p); }
            6 => { let mut t = s.split_off(p); s.push_str("é!"); t.push('€'); $out.push(t.len() as u64); for b in t.bytes().take(64) { $out.push(b as u64); } }
            7 => { let d: u64 = s.drain(p..).fold(7u64, |a, c| a.wrapping_mul(31).wrapping_add(c as u64)); $out.push(d); }
            8 => { let d: u64 = s.drain(..p).fold(7u64, |a, c| a.wrapping_mul(31).wrapping_add(c as u64)); $out.push(d); }
            9 => { let d: u64 = s.drain(p.min(q)..p.max(q)).fold(7u64, |a, c| a.wrapping_mul(31).wrapping_add(c as u64)); $out.push(d); }
            10 => { s.replace_range(p.min(q)..p.max(q), "0123456789€€€€€€€€€€😀😀😀😀😀😀😀😀😀😀abcdefghijklmnopqrstuvwxyz"); }
            11 => { s.replace_range(p.min(q)..p.max(q), "é"); }
            12 => { s.retain(|c| c.is_ascii()); }
            13 => { s.retain(|c| !c.is_ascii()); }
            14 => { s.extend(['a', 'é', '€', '😀'].iter().copied().cycle().take(300)); }
            _ => { let c = s.clone(); $out.push((c == *s) as u64); $out.push(c.len() as u64); }
        }
    }};
}

fn run_long_text(bump: &Bump, shape: u8, op: u8, cls: u8, v: &mut Vec<Violation>, h: &mut Hasher128) {
    // everything the harness itself allocates happens under the callback guard (not arena traffic)
    let (base, p, q) = {
        let _g = Callback::enter();
        let base = std::mem::ManuallyDrop::new(long_text(shape));
        let p = long_pos(&base, cls);
        let q = long_pos(&base, (cls + 3) % 7);
        (base, p, q)
    };
    let what = LONG_OPS[op as usize];
    // reference
    let (r1, o1) = {
        let _g = Callback::enter();
        let mut o: Vec<u64> = Vec::new();
        let mut s1 = (*base).clone();
        let r = crate::util::quiet(|| std::panic::catch_unwind(std::panic::AssertUnwindSafe(|| long_op!(&mut s1, op, p, q, o))).is_ok());
        ((r, s1), o)
    };
    // arena string (a neighbour is allocated first so that growth has to move the buffer)
    let mut o0: Vec<u64> = { let _g = Callback::enter(); Vec::with_capacity(128) };
    let mut s0 = BString::from_str_in(&base, bump);
    let _neighbour = bump.alloc(7u64);
    let ok0 = {
        let o = &mut o0;
        let sref = &mut s0;
        crate::util::quiet(|| std::panic::catch_unwind(std::panic::AssertUnwindSafe(|| long_op!(sref, op, p, q, o))).is_ok())
    };
    let _g = Callback::enter();
    let (ok1, s1) = r1;
    if ok0 != ok1 {
        push(v, "long_text_differs", format!("long_text_differs/{what}/panic"), format!("{what} at byte {p} (and {q}) of a {}-byte text: arena string {} but std {}", base.len(), if ok0 { "returned" } else { "panicked" }, if ok1 { "returned" } else { "panicked" }));
    } else if s0.as_str() != s1.as_str() || o0 != o1 {
        let at = s0.bytes().zip(s1.bytes()).position(|(a, b)| a != b).unwrap_or(s0.len().min(s1.len()));
        push(v, "long_text_differs", format!("long_text_differs/{what}"), format!("{what} at byte {p} (and {q}) of a {}-byte text: results differ from std (lengths {} vs {}, first difference at byte {at}; returned values equal: {})", base.len(), s0.len(), s1.len(), o0 == o1));
    }
    if std::str::from_utf8(s0.as_bytes()).is_err() {
        push(v, "invalid_utf8", format!("invalid_utf8/{what}/long"), format!("{what} at byte {p} of a long text left invalid UTF-8"));
    }
    h.u(s0.len() as u64);
    h.u(ok0 as u64);
    drop(o0);
    drop(s1);
    drop(o1);
    drop(std::mem::ManuallyDrop::into_inner(base));
}


pub fn describe_dec(which: u8, a: u8, b: u8, c: u8, _t: bool) -> serde_json::Value {
    match which {
        0 => serde_json::json!({"decoders": "from_utf8 + from_utf8_lossy_in", "inputs": format!("all byte strings of length <= 3 whose first byte is {:#04x}", a)}),
        2 => serde_json::json!({"decoders": "from_utf8 + from_utf8_lossy_in", "inputs": format!("all byte strings of length 4 starting with {:#04x} {:#04x}", a, b)}),
        1 => serde_json::json!({"decoders": "from_utf8 + from_utf8_lossy_in", "inputs": format!("all strings of length 2..=5 over the 26 class bytes starting with {:#04x} {:#04x}", CLASSES[a as usize], CLASSES[b as usize])}),
        4 => serde_json::json!({"decoders": "from_utf8 + from_utf8_lossy_in", "inputs": format!("all strings of length 6..=7 over the 26 class bytes starting with {:#04x} {:#04x} {:#04x}", CLASSES[a as usize], CLASSES[b as usize], CLASSES[c as usize])}),
        20 => serde_json::json!({"long_text_shape": a, "operation": LONG_OPS[b as usize], "position_class": c}),
        22 => serde_json::json!({"decoders": "from_utf8 + from_utf8_lossy_in, end-of-input grid", "inputs": format!("{} ASCII bytes, then each of the {} multi-byte / truncated / invalid sequences, then 0..=8 ASCII bytes", a, LONG_SEQS.len())}),
        21 => serde_json::json!({"decoders": "from_utf8 + from_utf8_lossy_in on long inputs", "inputs": format!("ASCII with the bytes {:02x?} placed at each of the 12 offsets before/after the {} byte mark", LONG_SEQS[b as usize], [4096, 8192, 65536][a as usize])}),
        _ => serde_json::json!({"decoders": "from_utf16_in", "inputs": format!("all u16 strings of length <= 6 over 9 unit classes starting with {:#06x}", UNITS[a as usize])}),
    }
}

fn push(v: &mut Vec<Violation>, clause: &'static str, key: String, detail: String) {
    v.push(Violation { prop: 14, clause, key, detail, unsafe_mem: false });
}

/// Compare both byte decoders on one input. Returns false on mismatch.
fn check_bytes(b: &Bump, bytes: &[u8], v: &mut Vec<Violation>, h: &mut Hasher128) -> bool {
    // reference-model (std) allocations are not chunk requests; arena calls re-enter the window
    let _cb = Callback::enter();
    let std_lossy = String::from_utf8_lossy(bytes);
    let ours = {
        let _r = Reenter::enter();
        BString::from_utf8_lossy_in(bytes, b)
    };
    if ours.as_str() != &*std_lossy {
        push(v, "decoder_differs", "decoder_differs/from_utf8_lossy_in".into(), format!("from_utf8_lossy_in({:02x?}) = {:?} ({:02x?}); std gives {:?}", bytes, ours.as_str(), ours.as_bytes(), std_lossy));
        return false;
    }
    h.u(ours.len() as u64);
    drop(ours);
    let ours_r = {
        let _r = Reenter::enter();
        let mut bv: BVec<u8> = BVec::with_capacity_in(bytes.len(), b);
        bv.extend_from_slice_copy(bytes);
        BString::from_utf8(bv)
    };
    let std_r = std::str::from_utf8(bytes);
    match (ours_r, std_r) {
        (Ok(s), Ok(t)) => {
            if s.as_str() != t {
                push(v, "decoder_differs", "decoder_differs/from_utf8".into(), format!("from_utf8({:02x?}) accepted with different text", bytes));
                return false;
            }
        }
        (Err(e), Err(se)) => {
            let ue = e.utf8_error();
            if ue.valid_up_to() != se.valid_up_to() || ue.error_len() != se.error_len() || e.as_bytes() != bytes {
                push(v, "decoder_differs", "decoder_differs/from_utf8_error".into(), format!("from_utf8({:02x?}): error {:?} / bytes {:02x?}; std error {:?}", bytes, ue, e.as_bytes(), se));
                return false;
            }
            h.u(ue.valid_up_to() as u64 + 1000);
        }
        (Ok(_), Err(se)) => {
            push(v, "decoder_differs", "decoder_differs/from_utf8_accepts_invalid".into(), format!("from_utf8({:02x?}) accepted; std rejects ({:?})", bytes, se));
            return false;
        }
        (Err(e), Ok(_)) => {
            push(v, "decoder_differs", "decoder_differs/from_utf8_rejects_valid".into(), format!("from_utf8({:02x?}) rejected ({:?}); std accepts", bytes, e.utf8_error()));
            return false;
        }
    }
    true
}

pub fn run_dec(envp: *mut ExecEnv, which: u8, a: u8, b: u8, c: u8, _t: bool, v: &mut Vec<Violation>) -> u64 {
    let mut bump: Bump = arena_op(envp, 0, 0, &[], Bump::new).unwrap();
    let mut h = Hasher128::new();
    unsafe { (*envp).begin_op(1, 0, &[]) };
    let r = arena_op_cont(|| {
        let mut n = 0u64;
        let mut buf = [0u8; 8];
        let mut go = |bump: &mut Bump, bytes: &[u8], v: &mut Vec<Violation>, h: &mut Hasher128| -> bool {
            let ok = check_bytes(bump, bytes, v, h);
            bump.reset();
            ok
        };
        match which {
            20 => {
                run_long_text(&bump, a, b, c, v, &mut h);
                n += 1;
            }
            21 => {
                let mark = [4096usize, 8192, 65536][a as usize];
                let seq = LONG_SEQS[b as usize];
                let mut input: std::mem::ManuallyDrop<Vec<u8>> = { let _g = Callback::enter(); std::mem::ManuallyDrop::new(vec![b'x'; mark + 64]) };
                for off in (mark - 8)..(mark + 4) {
                    for (i, x) in input.iter_mut().enumerate() {
                        *x = b'a' + (i % 23) as u8;
                    }
                    input[off..off + seq.len()].copy_from_slice(seq);
                    n += 1;
                    if !go(&mut bump, &input[..], v, &mut h) {
                        break;
                    }
                }
                let _g = Callback::enter();
                drop(std::mem::ManuallyDrop::into_inner(input));
            }
            22 => {
                let mut input = [0u8; 64];
                'grid: for seq in LONG_SEQS.iter() {
                    for tail in 0..=8usize {
                        let len = a as usize + seq.len() + tail;
                        for (i, x) in input.iter_mut().enumerate() {
                            *x = b'a' + (i % 23) as u8;
                        }
                        input[a as usize..a as usize + seq.len()].copy_from_slice(seq);
                        n += 1;
                        if !go(&mut bump, &input[..len], v, &mut h) {
                            break 'grid;
                        }
                    }
                }
            }
            0 => {
                if a == 0 && !go(&mut bump, &[], v, &mut h) {
                    return n;
                }
                buf[0] = a;
                if !go(&mut bump, &buf[..1], v, &mut h) {
                    return n;
                }
                for x in 0..=255u8 {
                    buf[1] = x;
                    if !go(&mut bump, &buf[..2], v, &mut h) {
                        return n;
                    }
                    for y in 0..=255u8 {
                        buf[2] = y;
                        n += 1;
                        if !go(&mut bump, &buf[..3], v, &mut h) {
                            return n;
                        }
                    }
                }
            }
            2 => {
                buf[0] = a;
                buf[1] = b;
                for x in 0..=255u8 {
                    buf[2] = x;
                    for y in 0..=255u8 {
                        buf[3] = y;
                        n += 1;
                        if !go(&mut bump, &buf[..4], v, &mut h) {
                            return n;
                        }
                    }
                }
            }
            1 | 4 => {
                // odometer over the class alphabet after the fixed prefix
                let (pre, maxlen) = if which == 1 { (2usize, 5usize) } else { (3usize, 7usize) };
                buf[0] = CLASSES[a as usize];
                buf[1] = CLASSES[b as usize];
                buf[2] = CLASSES[c as usize];
                let minlen = if which == 1 { 2 } else { 6 };
                for len in minlen..=maxlen {
                    let free = len - pre;
                    let mut idx = [0usize; 8];
                    loop {
                        for k in 0..free {
                            buf[pre + k] = CLASSES[idx[k]];
                        }
                        n += 1;
                        if !go(&mut bump, &buf[..len], v, &mut h) {
                            return n;
                        }
                        // increment
                        let mut k = 0;
                        loop {
                            if k == free {
                                break;
                            }
                            idx[k] += 1;
                            if idx[k] < 26 {
                                break;
                            }
                            idx[k] = 0;
                            k += 1;
                        }
                        if k == free {
                            break;
                        }
                    }
                }
            }
            _ => {
                let mut u = [0u16; 6];
                u[0] = UNITS[a as usize];
                for len in 0..=6usize {
                    if len == 0 && a != 0 {
                        continue;
                    }
                    let free = len.saturating_sub(1);
                    let mut idx = [0usize; 6];
                    loop {
                        for k in 0..free {
                            u[1 + k] = UNITS[idx[k]];
                        }
                        n += 1;
                        let ours = BString::from_utf16_in(&u[..len], &bump);
                        let _cb = Callback::enter();
                        let theirs = String::from_utf16(&u[..len]);
                        let same = match (&ours, &theirs) {
                            (Ok(x), Ok(y)) => x.as_str() == y.as_str(),
                            (Err(_), Err(_)) => true,
                            _ => false,
                        };
                        if !same {
                            push(v, "decoder_differs", "decoder_differs/from_utf16_in".into(), format!("from_utf16_in({:04x?}) = {:?}; std gives {:?}", &u[..len], ours.as_ref().map(|s| s.as_str().to_string()).map_err(|_| "Err"), theirs.as_ref().map_err(|_| "Err")));
                            return n;
                        }
                        h.u(ours.is_ok() as u64);
                        drop(ours);
                        bump.reset();
                        let mut k = 0;
                        loop {
                            if k == free {
                                break;
                            }
                            idx[k] += 1;
                            if idx[k] < 9 {
                                break;
                            }
                            idx[k] = 0;
                            k += 1;
                        }
                        if k == free {
                            break;
                        }
                    }
                }
            }
        }
        n
    });
    if let Ok(n) = &r {
        crate::grid::INPUTS.fetch_add(*n, std::sync::atomic::Ordering::Relaxed);
    }
    if let Err(p) = r {
        push(v, "decoder_panicked", "decoder_panicked".into(), format!("a decoder panicked: {:?}", p));
    }
    let _ = arena_op(envp, 2, 0, &[], move || drop(bump));
    h.finish64()
}

// ------------------------------------------------------------------------------------------
// C18(d): Vec / String capacity behaviour
// ------------------------------------------------------------------------------------------

pub fn vgrow_cases(t: bool) -> Vec<Case> {
    let mut c = Vec::new();
    // kind 0: with_capacity_in(n) then n pushes; kind 1: reserve(n) on a 3-element vec then n pushes;
    // kind 2: push n elements one by one, count reallocations; kind 3/4: String with_capacity / push growth
    let sizes: &[u8] = &[0, 1, 2, 3, 4, 5];
    for &esz in sizes {
        for n in (0..=64u32).chain([100, 127, 128, 129, 1000, 4095, 4096, 4097]) {
            c.push(Case::VGrow { kind: 0, esz, n });
            c.push(Case::VGrow { kind: 1, esz, n });
        }
        for n in [1u32, 2, 3, 5, 17, 100, 1000, if t { 65536 } else { 16384 }] {
            c.push(Case::VGrow { kind: 2, esz, n });
        }
    }
    // kinds 5..=13: the same growth law through every other way of appending to a Vec (see VG_METHODS);
    // kinds 20..=26: through every way of appending to a String
    for &esz in sizes {
        for kind in 5..5 + VG_METHODS.len() as u8 {
            for n in [100u32, 1000, if t { 65536 } else { 16384 }] {
                c.push(Case::VGrow { kind, esz, n });
            }
        }
    }
    // kind 17: an older block, then one bulk operation (resize / append / extend_from_slice_copy) that needs 1, 2 or 3 MiB:
    // the bulk write must stay inside the vector's buffer
    for &esz in sizes {
        for n in [1u32, 2, 3] {
            c.push(Case::VGrow { kind: 17, esz, n });
        }
    }
    // kind 16: two vectors growing side by side (each growth has to move): memory held stays proportional
    for &esz in sizes {
        for n in [2048u32, if t { 65536 } else { 16384 }] {
            c.push(Case::VGrow { kind: 16, esz, n });
        }
    }
    // kind 15: large reservations (1, 3 and 5 MiB beyond the current buffer in one step) keep their promise
    for &esz in sizes {
        for n in [1u32, 3, 5] {
            c.push(Case::VGrow { kind: 15, esz, n });
        }
    }
    // kind 14: a Vec with reserved capacity must not move when a splice (inexact size hint) fits
    for &esz in sizes {
        for n in [8u32, 32, 100] {
            c.push(Case::VGrow { kind: 14, esz, n });
        }
    }
    for kind in 20..20 + SG_METHODS.len() as u8 {
        for n in [100u32, 1000, if t { 65536 } else { 16384 }] {
            c.push(Case::VGrow { kind, esz: 0, n });
        }
    }
    for n in (0..=64u32).chain([100, 1000, 4096, 5000]) {
        c.push(Case::VGrow { kind: 3, esz: 0, n });
    }
    for n in [1u32, 10, 1000, if t { 65536 } else { 16384 }] {
        c.push(Case::VGrow { kind: 4, esz: 0, n });
    }
    c
}

pub const VG_METHODS: [&str; 9] = ["extend_from_slice(1)", "extend_from_slice(3)", "extend(exact-size iterator of 3)", "extend(iterator without a size hint, 2)", "extend_from_slice_copy(3)", "extend_from_slices_copy(2+1)", "insert(0, x)", "resize(len + 3)", "append(vec of 2)"];
pub const SG_METHODS: [&str; 7] = ["push(2-byte char)", "push(4-byte char)", "push_str(3 bytes)", "extend(chars)", "extend(strs)", "insert(0, 2-byte char)", "insert_str(1, 3 bytes)"];

fn vgrow_typed<T: Copy + 'static>(envp: *mut ExecEnv, kind: u8, n: usize, val: T, v: &mut Vec<Violation>) -> u64 {
    let esz = std::mem::size_of::<T>();
    let mut push = |clause: &'static str, key: String, detail: String| v.push(Violation { prop: 18, clause, key, detail, unsafe_mem: false });
    unsafe { (*envp).policy.cap = (*envp).slabs[0].size };
    let bump: Bump = arena_op(envp, 0, 0, &[], Bump::new).unwrap();
    unsafe { (*envp).begin_op(1, 0, &[]) };
    let mut h = Hasher128::new();
    let r = arena_op_cont(|| match kind {
        0 | 1 => {
            let mut vec: BVec<T> = if kind == 0 { BVec::with_capacity_in(n, &bump) } else { BVec::new_in(&bump) };
            if kind == 1 {
                for _ in 0..3 {
                    vec.push(val);
                }
                vec.reserve(n);
            }
            let (p0, c0) = (vec.as_ptr() as usize, vec.capacity());
            let base = vec.len();
            if c0 < base + n {
                return Some(format!("capacity {} after asking for room for {} more elements (len {})", c0, n, base));
            }
            // something else grows in the same arena meanwhile
            let _other = bump.alloc(7u64);
            for i in 0..n {
                vec.push(val);
                if vec.as_ptr() as usize != p0 || vec.capacity() != c0 {
                    return Some(format!("buffer moved or capacity changed at push {} of {} reserved (capacity {} -> {})", i + 1, n, c0, vec.capacity()));
                }
            }
            None
        }
        17 => {
            let count = (n << 20) / esz.max(1) + 7;
            for how in 0..3u8 {
                // the victim is older than the vector's big buffer, i.e. directly above it in the chunk
                let mut vec: BVec<T> = BVec::new_in(&bump);
                for _ in 0..1000 {
                    vec.push(val);
                }
                let victim: &mut [u64] = bump.alloc_slice_fill_copy(64, 0xA1A2_A3A4_A5A6_A7A8u64);
                let vaddr = victim.as_ptr() as usize;
                match how {
                    0 => vec.resize(count, val),
                    1 => {
                        let mut donor: BVec<T> = BVec::with_capacity_in(8, &bump);
                        donor.push(val);
                        let mut big: BVec<T> = BVec::new_in(&bump);
                        big.resize(count, val);
                        big.append(&mut donor);
                        if big.len() != count + 1 {
                            return Some(format!("append at {count} elements: wrong length {}", big.len()));
                        }
                    }
                    _ => {
                        let l = vec.len();
                        vec.resize(l + 3, val);
                    }
                }
                let bad = (0..64).find(|i| unsafe { *((vaddr + i * 8) as *const u64) } != 0xA1A2_A3A4_A5A6_A7A8u64);
                if let Some(i) = bad {
                    return Some(format!("word {i} of an older live block changed while a vector of {esz}-byte elements was resized to {count} elements"));
                }
                if vec.capacity() < vec.len() {
                    return Some(format!("capacity {} below length {}", vec.capacity(), vec.len()));
                }
            }
            None
        }
        16 => {
            let mut v1: BVec<T> = BVec::new_in(&bump);
            let mut v2: BVec<T> = BVec::new_in(&bump);
            for _ in 0..n {
                v1.push(val);
                v2.push(val);
            }
            let stored = 2 * n * esz.max(1);
            let held = unsafe { (*envp).live_bytes(0) };
            let reqs = unsafe { (*envp).total_reqs } as usize;
            let bound_reqs = 2 * (stored.max(512) / 512).ilog2() as usize + 8;
            if esz > 0 && held > 16 * stored + (1 << 16) {
                return Some(format!("two vectors of {n} elements ({stored} bytes) growing side by side: the arena holds {held} bytes"));
            }
            if esz > 0 && reqs > bound_reqs {
                return Some(format!("two vectors of {n} elements ({stored} bytes) growing side by side: {reqs} global-allocator requests (bound {bound_reqs})"));
            }
            None
        }
        15 => {
            // n MiB more than the vector holds, asked for in one amortised step (reserve, then try_reserve on a second vector)
            let extra = (n << 20) / esz.max(1);
            for fallible in [false, true] {
                let mut vec: BVec<T> = BVec::new_in(&bump);
                for _ in 0..100 {
                    vec.push(val);
                }
                if fallible {
                    if vec.try_reserve(extra).is_err() {
                        continue;
                    }
                } else {
                    vec.reserve(extra);
                }
                if vec.capacity() < vec.len() + extra {
                    return Some(format!("{}({extra}) on a vector of {} elements returned normally with capacity {} (< {})", if fallible { "try_reserve" } else { "reserve" }, vec.len(), vec.capacity(), vec.len() + extra));
                }
            }
            None
        }
        14 => {
            // n = reserved capacity; n/4 elements present, a splice replaces 1 element in the middle by 3 (surplus 2),
            // the replacement iterator's size hint is (0, Some(n * 4)): the result fits, so nothing may move
            let mut vec: BVec<T> = BVec::with_capacity_in(n, &bump);
            for _ in 0..(n / 4).max(2) {
                vec.push(val);
            }
            let _other = bump.alloc(7u64);
            let (p0, c0, l0) = (vec.as_ptr() as usize, vec.capacity(), vec.len());
            let many = n * 4;
            let repl = (0..many).filter(move |i| *i < 3).map(move |_| val);
            drop(vec.splice(1..2, repl));
            if vec.len() != l0 + 2 {
                return Some(format!("splice produced {} elements, expected {}", vec.len(), l0 + 2));
            }
            if vec.as_ptr() as usize != p0 || vec.capacity() != c0 {
                return Some(format!("a splice that fits the reserved capacity ({} of {}) moved the buffer or changed the capacity ({} -> {})", vec.len(), c0, c0, vec.capacity()));
            }
            None
        }
        5..=13 => {
            // grow to n elements through one appending method; capacity changes must stay logarithmic
            let mut vec: BVec<T> = BVec::new_in(&bump);
            let mut reallocs = 0usize;
            let mut last_cap = 0usize;
            let bound = 2 * (n.max(1).ilog2() as usize) + 4;
            let three = [val; 3];
            while vec.len() < n {
                match kind {
                    5 => vec.extend_from_slice(&three[..1]),
                    6 => vec.extend_from_slice(&three),
                    7 => vec.extend(three.iter().copied()),
                    8 => vec.extend(three.iter().copied().enumerate().filter(|(i, _)| *i != 1).map(|(_, x)| x)),
                    9 => vec.extend_from_slice_copy(&three),
                    10 => vec.extend_from_slices_copy(&[&three[..2], &three[..1]]),
                    11 => vec.insert(0, val),
                    12 => { let l = vec.len(); vec.resize(l + 3, val) }
                    _ => { let mut o: BVec<T> = BVec::with_capacity_in(2, &bump); o.push(val); o.push(val); vec.append(&mut o) }
                }
                let c = vec.capacity();
                if c != last_cap {
                    if last_cap != 0 {
                        reallocs += 1;
                    }
                    last_cap = c;
                    if esz > 0 && reallocs > bound {
                        return Some(format!("{} capacity changes on the way to {} of {} elements appended by {} (logarithmic bound {})", reallocs, vec.len(), n, VG_METHODS[kind as usize - 5], bound));
                    }
                }
            }
            None
        }
        _ => {
            let mut vec: BVec<T> = BVec::new_in(&bump);
            let mut reallocs = 0usize;
            let mut last_cap = 0usize;
            for i in 0..n {
                vec.push(val);
                let c = vec.capacity();
                if c != last_cap {
                    if last_cap != 0 {
                        reallocs += 1;
                        if c < 2 * last_cap && c != i + 1 {
                            return Some(format!("capacity grew from {} to {} at len {} (neither doubling nor exact)", last_cap, c, i + 1));
                        }
                    }
                    last_cap = c;
                }
            }
            let bound = (n.max(1).ilog2() as usize) + 3;
            if esz > 0 && reallocs > bound {
                return Some(format!("{} capacity changes while pushing {} elements (logarithmic bound {})", reallocs, n, bound));
            }
            None
        }
    });
    h.u(kind as u64);
    match r {
        Ok(None) => h.u(1),
        Ok(Some(msg)) => {
            let key: String = match kind {
                0 => "reserved_capacity_not_stable/with_capacity_in".into(),
                1 => "reserved_capacity_not_stable/reserve".into(),
                5..=13 => format!("vec_growth_not_geometric/{}", VG_METHODS[kind as usize - 5].split('(').next().unwrap()),
                14 => "reserved_capacity_not_stable/splice".into(),
                15 => "reserve_promise_broken/large".into(),
                16 => "held_memory_not_proportional/two_vectors".into(),
                17 => "bulk_write_outside_buffer".into(),
                _ => "vec_growth_not_geometric".into(),
            };
            push("vec_capacity", key.clone(), format!("Vec<{} bytes> n={}: {}", esz, n, msg));
            let extra_props: &[u8] = match kind {
                15 => &[13],
                17 => &[2, 13, 1],
                _ => &[],
            };
            for &pr in extra_props {
                v.push(Violation { prop: pr, clause: if kind == 15 { "reserve_promise_broken" } else { "live_block_changed" }, key: format!("{}/{}", if kind == 15 { "reserve_promise_broken" } else { "live_block_changed" }, key), detail: format!("Vec<{} bytes> n={}: {}", esz, n, msg), unsafe_mem: false });
            }
        }
        Err(p) => push("vec_capacity", "vec_capacity/panic".into(), format!("Vec<{} bytes> n={}: panicked {:?}", esz, n, p)),
    }
    let _ = arena_op(envp, 2, 0, &[], move || drop(bump));
    h.finish64()
}

pub fn run_vgrow(envp: *mut ExecEnv, kind: u8, esz: u8, n: u32, v: &mut Vec<Violation>) -> u64 {
    let n = n as usize;
    if kind >= 20 {
        unsafe { (*envp).policy.cap = (*envp).slabs[0].size };
        let bump: Bump = arena_op(envp, 0, 0, &[], Bump::new).unwrap();
        unsafe { (*envp).begin_op(1, 0, &[]) };
        let r = arena_op_cont(|| {
            let mut s = BString::new_in(&bump);
            let mut reallocs = 0usize;
            let mut last = 0usize;
            let bound = 2 * (n.max(1).ilog2() as usize) + 4;
            while s.len() < n {
                match kind {
                    20 => s.push('é'),
                    21 => s.push('😀'),
                    22 => s.push_str("abc"),
                    23 => s.extend(['a', 'é'].iter().copied()),
                    24 => s.extend(["ab", "c"].iter().copied()),
                    25 => s.insert(0, 'é'),
                    _ => { if s.is_empty() { s.push('x') } s.insert_str(1, "abc") }
                }
                if s.capacity() != last {
                    if last != 0 {
                        reallocs += 1;
                    }
                    last = s.capacity();
                    if reallocs > bound {
                        return Some(format!("{} capacity changes on the way to {} of {} bytes appended by {} (logarithmic bound {})", reallocs, s.len(), n, SG_METHODS[kind as usize - 20], bound));
                    }
                }
            }
            None
        });
        match r {
            Ok(None) => {}
            Ok(Some(m)) => v.push(Violation { prop: 18, clause: "string_capacity", key: format!("string_growth_not_geometric/{}", SG_METHODS[kind as usize - 20].split('(').next().unwrap()), detail: format!("String n={}: {}", n, m), unsafe_mem: false }),
            Err(p) => v.push(Violation { prop: 18, clause: "string_capacity", key: "string_capacity/panic".into(), detail: format!("{:?}", p), unsafe_mem: false }),
        }
        let _ = arena_op(envp, 2, 0, &[], move || drop(bump));
        return kind as u64 * 1000 + n as u64 % 7;
    }
    if kind >= 3 && kind < 5 {
        unsafe { (*envp).policy.cap = (*envp).slabs[0].size };
        let bump: Bump = arena_op(envp, 0, 0, &[], Bump::new).unwrap();
        unsafe { (*envp).begin_op(1, 0, &[]) };
        let r = arena_op_cont(|| {
            if kind == 3 {
                let mut s = BString::with_capacity_in(n, &bump);
                let (p0, c0) = (s.as_ptr() as usize, s.capacity());
                if c0 < n {
                    return Some(format!("capacity {} < requested {}", c0, n));
                }
                let _other = bump.alloc(7u64);
                for i in 0..n {
                    s.push('x');
                    if s.as_ptr() as usize != p0 || s.capacity() != c0 {
                        return Some(format!("buffer moved at byte {} of {} reserved", i + 1, n));
                    }
                }
                None
            } else {
                let mut s = BString::new_in(&bump);
                let mut reallocs = 0usize;
                let mut last = 0usize;
                for _ in 0..n {
                    s.push('x');
                    if s.capacity() != last {
                        if last != 0 {
                            reallocs += 1;
                        }
                        last = s.capacity();
                    }
                }
                let bound = (n.max(1).ilog2() as usize) + 3;
                if reallocs > bound {
                    return Some(format!("{} capacity changes while pushing {} bytes (bound {})", reallocs, n, bound));
                }
                None
            }
        });
        match r {
            Ok(None) => {}
            Ok(Some(m)) => v.push(Violation { prop: 18, clause: "string_capacity", key: if kind == 3 { "reserved_capacity_not_stable/String::with_capacity_in".into() } else { "string_growth_not_geometric".into() }, detail: format!("String n={}: {}", n, m), unsafe_mem: false }),
            Err(p) => v.push(Violation { prop: 18, clause: "string_capacity", key: "string_capacity/panic".into(), detail: format!("{:?}", p), unsafe_mem: false }),
        }
        let _ = arena_op(envp, 2, 0, &[], move || drop(bump));
        return kind as u64 * 1000 + n as u64 % 7;
    }
    match esz {
        0 => vgrow_typed::<u8>(envp, kind, n, 1u8, v),
        1 => vgrow_typed::<u16>(envp, kind, n, 1u16, v),
        2 => vgrow_typed::<[u8; 3]>(envp, kind, n, [1; 3], v),
        3 => vgrow_typed::<u64>(envp, kind, n, 1u64, v),
        4 => vgrow_typed::<[u8; 24]>(envp, kind, n, [1; 24], v),
        _ => vgrow_typed::<[u8; 100]>(envp, kind, n, [1; 100], v),
    }
}
