//! Grid "models": depth-1 explorations where every case is one independent execution
//! (constructor matrix for C04, capacity compositions and growth workloads for C18, overflow
//! boundaries for C19). Using the Model trait gives them the explorer's journaling, crash
//! handling, replay and counting for free.

use crate::env::{Answer, ExecEnv};
use crate::mc::{Hist, Model, RunOut, Violation, Worker};
use crate::util::{arena_op, Hasher128, PanicClass};
use bumpalo::Bump;
use std::alloc::Layout;

#[derive(Clone, Copy, Debug, PartialEq, Eq)]
pub enum GridKind {
    CtorMatrix,
    Capacity,
    Growth,
    Overflow,
    Decoders,
    VecGrowth,
    BoxChains,
    CrossArena,
    Retry,
}

#[derive(Clone, Copy, Debug, PartialEq, Eq, Hash)]
#[repr(C)]
pub enum Case {
    Nop,
    /// C04: constructor `ctor` for MIN_ALIGN = MA_LIST[mi]
    Ctor { mi: u8, ctor: u8 },
    /// C18(a): build with capacity `cap`, then serve floor(cap/M)*M bytes by pattern under a refusing allocator
    Cap { m: u8, cap: u32, pat: u8, arg: u32, via_b1: bool },
    /// C18(c): growth workload
    Grow { m: u8, wl: u8, log_v: u8 },
    /// C19: see overflow.rs
    Ovf { entry: u8, esz: u8, cnt: u8, m: u8, nonempty: bool },
    /// C14 decoders: see decoders.rs
    Dec { which: u8, a: u8, b: u8, c: u8 },
    /// C17: Box conversion chains; see boxmodel.rs
    Bx { fam: u8, build: u8, steps: u16, term: u8, fault: u8 },
    /// C18(d): Vec/String capacity stability and growth policy; see decoders.rs
    VGrow { kind: u8, esz: u8, n: u32 },
    /// C20/C13: two vectors (of two arenas, or of one) meeting in `append`; see crossarena.rs
    Cross { esz: u8, dest: u8, donor: u8, after: u8, same: bool },
    /// C18: chunk sizes under size-dependent refusal; see retry.rs
    Retry { m: u8, k: u8, req: u8, start: u8 },
}

/// Inputs checked inside grid cases that loop over many inputs (decoder grids).
pub static INPUTS: std::sync::atomic::AtomicU64 = std::sync::atomic::AtomicU64::new(0);

pub const MA_LIST: [usize; 17] = [0, 1, 2, 3, 4, 5, 6, 7, 8, 9, 12, 16, 24, 32, 64, 128, 1 << 20];

pub struct GridModel {
    pub kind: GridKind,
    pub thorough: bool,
}

fn viol(v: &mut Vec<Violation>, prop: u8, clause: &'static str, key: String, detail: String) {
    v.push(Violation { prop, clause, key, detail, unsafe_mem: false });
}

macro_rules! ctor_case {
    ($n:expr, $ctor:expr, $v:expr, $envp:expr) => {{
        const N: usize = $n;
        let valid = N.is_power_of_two() && N <= 16;
        let r = arena_op($envp, 1, 0, &[], || -> Result<(usize, usize), ()> {
            let b: Bump<N> = match $ctor {
                0 => Bump::<N>::with_min_align(),
                1 => Bump::<N>::with_min_align_and_capacity(100),
                2 => match Bump::<N>::try_with_min_align_and_capacity(100) {
                    Ok(b) => b,
                    Err(_) => return Err(()),
                },
                _ => Bump::<N>::default(),
            };
            let ma = b.min_align();
            // a byte, then a zero-sized value: both must honour N when N is valid
            let p1 = if valid { b.alloc(7u8) as *mut u8 as usize } else { 0 };
            let _ = b.alloc(());
            drop(b);
            Ok((ma, p1))
        });
        let cname = ["with_min_align", "with_min_align_and_capacity", "try_with_min_align_and_capacity", "default"][$ctor as usize];
        match (valid, r) {
            (true, Ok(Ok((ma, p1)))) => {
                if ma != N {
                    viol($v, 4, "min_align_misreported", format!("min_align_misreported/{cname}"), format!("Bump::<{N}>::{cname}: min_align() = {ma}"));
                }
                if N != 0 && p1 % N.max(1) != 0 {
                    viol($v, 4, "misaligned_min", format!("misaligned_min/{cname}/first_alloc"), format!("Bump::<{N}>::{cname}: first alloc at {:#x}", p1));
                }
            }
            (true, Ok(Err(()))) => viol($v, 4, "valid_min_align_refused", format!("valid_min_align_refused/{cname}"), format!("Bump::<{N}>::{cname} returned Err under a granting allocator")),
            (true, Err(p)) => viol($v, 4, "valid_min_align_refused", format!("valid_min_align_refused/{cname}"), format!("Bump::<{N}>::{cname} panicked: {:?}", p)),
            (false, Ok(_)) => viol($v, 4, "invalid_min_align_accepted", format!("invalid_min_align_accepted/{cname}"), format!("Bump::<{N}>::{cname} did not panic (MIN_ALIGN must be a power of two and at most 16)")),
            (false, Err(_)) => {}
        }
    }};
}

impl GridModel {
    fn run_ctor(&self, envp: *mut ExecEnv, mi: u8, ctor: u8, v: &mut Vec<Violation>) {
        match mi {
            0 => ctor_case!(0, ctor, v, envp),
            1 => ctor_case!(1, ctor, v, envp),
            2 => ctor_case!(2, ctor, v, envp),
            3 => ctor_case!(3, ctor, v, envp),
            4 => ctor_case!(4, ctor, v, envp),
            5 => ctor_case!(5, ctor, v, envp),
            6 => ctor_case!(6, ctor, v, envp),
            7 => ctor_case!(7, ctor, v, envp),
            8 => ctor_case!(8, ctor, v, envp),
            9 => ctor_case!(9, ctor, v, envp),
            10 => ctor_case!(12, ctor, v, envp),
            11 => ctor_case!(16, ctor, v, envp),
            12 => ctor_case!(24, ctor, v, envp),
            13 => ctor_case!(32, ctor, v, envp),
            14 => ctor_case!(64, ctor, v, envp),
            15 => ctor_case!(128, ctor, v, envp),
            _ => ctor_case!(1048576, ctor, v, envp),
        }
    }

    fn run_cap<const M: usize>(&self, envp: *mut ExecEnv, cap: usize, pat: u8, arg: u32, via_b1: bool, v: &mut Vec<Violation>) -> u64 {
        let what = if via_b1 { "with_capacity" } else { "with_min_align_and_capacity" };
        unsafe { (*envp).policy.cap = (*envp).slabs[0].size };
        let r = arena_op(envp, 0, 0, &[], || -> Bump<M> {
            if via_b1 && M == 1 {
                let b = Bump::with_capacity(cap);
                unsafe {
                    let r = std::ptr::read(&b as *const Bump<1> as *const Bump<M>);
                    std::mem::forget(b);
                    r
                }
            } else {
                Bump::<M>::with_min_align_and_capacity(cap)
            }
        });
        let b = match r {
            Ok(b) => b,
            Err(p) => {
                viol(v, 18, "capacity_ctor_failed", format!("capacity_ctor_failed/{what}"), format!("{what}({cap}) on Bump<{M}> panicked under a granting allocator: {:?}", p));
                return 0;
            }
        };
        let total = cap / M * M;
        if b.chunk_capacity() < total {
            viol(v, 18, "capacity_not_honoured", format!("capacity_not_honoured/{what}/chunk_capacity"), format!("{what}({cap}) on Bump<{M}>: chunk_capacity() = {}", b.chunk_capacity()));
        }
        // the request sequence, in units of M
        let units = cap / M;
        let mut parts: Vec<usize> = Vec::new();
        match pat {
            0 | 1 => {
                if units > 0 {
                    parts.push(units)
                }
            }
            2 => parts.extend(std::iter::repeat(1).take(units)),
            3 => {
                let i = (arg as usize).min(units);
                if i > 0 {
                    parts.push(i);
                }
                if units - i > 0 {
                    parts.push(units - i);
                }
            }
            _ => {
                // composition by cut bits
                let mut run = 1usize;
                for k in 0..units.saturating_sub(1) {
                    if arg & (1 << k) != 0 {
                        parts.push(run);
                        run = 1;
                    } else {
                        run += 1;
                    }
                }
                if units > 0 {
                    parts.push(run);
                }
            }
        }
        let align = if pat == 1 { 1 } else { M };
        unsafe {
            (*envp).begin_op(1, 0, &[]);
            (*envp).default_answer = Answer::Refuse;
        }
        let mut served = 0usize;
        let mut h = Hasher128::new();
        let r = crate::util::arena_op_cont(|| {
            for (i, u) in parts.iter().enumerate() {
                let l = Layout::from_size_align(u * M, align).unwrap();
                match b.try_alloc_layout(l) {
                    Ok(p) => {
                        served += u * M;
                        let _ = p;
                    }
                    Err(_) => return Some(i),
                }
            }
            None
        });
        let nreq = unsafe { (*envp).reqs.len() };
        h.u(nreq as u64);
        h.u(parts.len() as u64);
        h.u(b.chunk_capacity() as u64);
        match r {
            Ok(None) if nreq == 0 => {}
            Ok(None) => viol(v, 18, "capacity_not_honoured", format!("capacity_not_honoured/{what}/asked_allocator"), format!("{what}({cap}) on Bump<{M}>: serving {total} bytes as {:?} x{M} needed {nreq} request(s) to the global allocator", short(&parts))),
            Ok(Some(i)) => viol(v, 18, "capacity_not_honoured", format!("capacity_not_honoured/{what}/request_failed"), format!("{what}({cap}) on Bump<{M}>: request {i} of {:?} x{M} failed after {served} of {total} bytes", short(&parts))),
            Err(p) => viol(v, 18, "capacity_not_honoured", format!("capacity_not_honoured/{what}/panic"), format!("{what}({cap}): {:?}", p)),
        }
        unsafe { (*envp).default_answer = Answer::Default };
        let _ = arena_op(envp, 2, 0, &[], move || drop(b));
        h.finish64()
    }

    fn run_growth<const M: usize>(&self, envp: *mut ExecEnv, wl: u8, log_v: u8, v: &mut Vec<Violation>) -> u64 {
        let vol: usize = 1 << log_v;
        unsafe { (*envp).policy.cap = (*envp).slabs[0].size };
        let r = arena_op(envp, 0, 0, &[], || Bump::<M>::with_min_align());
        let b = r.unwrap();
        let sizes: [usize; 7] = [1, 8, 64, 448, 4096, 10_000, 70_000];
        let mut occupied = 0usize;
        let mut i = 0usize;
        unsafe { (*envp).begin_op(1, 0, &[]) };
        let r = crate::util::arena_op_cont(|| {
            while occupied < vol {
                let s = match wl {
                    0..=6 => sizes[wl as usize],
                    7 => 1 + (i % 257) * 16,          // ramp
                    8 => if i % 2 == 0 { 8 } else { 5000 }, // alternating small / multi-page
                    _ => if i % 3 == 0 { 70_000 } else { 24 },
                };
                let l = Layout::from_size_align(s, 1).unwrap();
                if b.try_alloc_layout(l).is_err() {
                    return false;
                }
                occupied += (s + M - 1) / M * M;
                i += 1;
            }
            true
        });
        let grants: Vec<usize> = unsafe { (*envp).reqs.iter().filter(|r| r.granted.is_some()).map(|r| r.size).collect() };
        let nreq = unsafe { (*envp).reqs.len() };
        let held: usize = grants.iter().sum();
        let wname = ["fixed1", "fixed8", "fixed64", "fixed448", "fixed4096", "fixed10000", "fixed70000", "ramp", "alt8_5000", "alt70000_24"][wl as usize];
        match r {
            Ok(true) => {}
            other => viol(v, 18, "growth_workload_failed", format!("growth_workload_failed/{wname}"), format!("workload {wname} to 2^{log_v} bytes failed: {:?}", other)),
        }
        for w in grants.windows(2) {
            if w[1] < w[0] {
                viol(v, 18, "chunk_sizes_decrease", format!("chunk_sizes_decrease/{wname}"), format!("workload {wname} (M={M}, 2^{log_v} bytes): chunk of {} bytes acquired after one of {} bytes", w[1], w[0]));
                break;
            }
        }
        let first = grants.first().copied().unwrap_or(512).max(512);
        let bound = 2 * ((vol.max(first) / first).max(1).ilog2() as usize) + 6;
        if nreq > bound {
            viol(v, 18, "too_many_allocator_requests", format!("too_many_allocator_requests/{wname}"), format!("workload {wname} (M={M}): {nreq} global-allocator requests for 2^{log_v} bytes (first chunk {first}); logarithmic bound {bound}"));
        }
        if held > 8 * occupied + 8192 + 2 * 70_000 {
            viol(v, 18, "held_memory_not_proportional", format!("held_memory_not_proportional/{wname}"), format!("workload {wname} (M={M}): holds {held} bytes for {occupied} occupied"));
        }
        let mut h = Hasher128::new();
        h.u(nreq as u64);
        h.u(held as u64);
        let _ = arena_op(envp, 2, 0, &[], move || drop(b));
        h.finish64()
    }
}

fn short(p: &[usize]) -> Vec<usize> {
    p.iter().take(12).copied().collect()
}

impl Model for GridModel {
    type Cfg = u8;
    type Act = Case;

    fn configs(&self) -> Vec<u8> {
        vec![0]
    }

    fn run(&self, w: &mut Worker, h: &Hist<u8, Case>, want_enabled: bool) -> RunOut<Case> {
        let envp: *mut ExecEnv = &mut *w.env;
        unsafe { (*envp).begin_execution() };
        let mut out = RunOut { key: 0, enabled: Vec::new(), nreq_last: 0, terminal: false, violations: Vec::new(), cov: 0, outcome: 0 };
        if h.len == 0 {
            if want_enabled {
                out.enabled = self.cases();
            }
            out.key = 1;
            return out;
        }
        let case = h.steps[0].act;
        let mut v = Vec::new();
        let oc: u64 = match case {
            Case::Nop => 0,
            Case::Ctor { mi, ctor } => {
                self.run_ctor(envp, mi, ctor, &mut v);
                (mi as u64) * 8 + ctor as u64
            }
            Case::Cap { m, cap, pat, arg, via_b1 } => match m {
                1 => self.run_cap::<1>(envp, cap as usize, pat, arg, via_b1, &mut v),
                2 => self.run_cap::<2>(envp, cap as usize, pat, arg, via_b1, &mut v),
                4 => self.run_cap::<4>(envp, cap as usize, pat, arg, via_b1, &mut v),
                8 => self.run_cap::<8>(envp, cap as usize, pat, arg, via_b1, &mut v),
                _ => self.run_cap::<16>(envp, cap as usize, pat, arg, via_b1, &mut v),
            },
            Case::Grow { m, wl, log_v } => match m {
                1 => self.run_growth::<1>(envp, wl, log_v, &mut v),
                2 => self.run_growth::<2>(envp, wl, log_v, &mut v),
                4 => self.run_growth::<4>(envp, wl, log_v, &mut v),
                8 => self.run_growth::<8>(envp, wl, log_v, &mut v),
                _ => self.run_growth::<16>(envp, wl, log_v, &mut v),
            },
            Case::Ovf { entry, esz, cnt, m, nonempty } => crate::overflow::run_case(envp, entry, esz, cnt, m, nonempty, &mut v),
            Case::Dec { which, a, b, c } => crate::decoders::run_dec(envp, which, a, b, c, self.thorough, &mut v),
            Case::VGrow { kind, esz, n } => crate::decoders::run_vgrow(envp, kind, esz, n, &mut v),
            Case::Cross { esz, dest, donor, after, same } => crate::crossarena::run_case(envp, esz, dest, donor, after, same, &mut v),
            Case::Retry { m, k, req, start } => crate::retry::run_case(envp, m, k, req, start, &mut v),
            Case::Bx { fam, build, steps, term, fault } => crate::boxmodel::run_case(envp, fam, build, steps, term, fault, &mut v),
        };
        // leftovers: every case must have released what it acquired
        let left = unsafe { (*envp).live_count(0) };
        if left != 0 && !matches!(case, Case::Ovf { .. } | Case::Bx { .. }) {
            viol(&mut v, 3, "leak_after_drop", "leak_after_drop/grid".into(), format!("{:?}: {left} block(s) still held after the arena was dropped", case));
        }
        if crate::util::static_dirty() {
            crate::util::restore_static();
            v.push(Violation { prop: 20, clause: "shared_static_modified", key: "shared_static_modified".into(), detail: "the shared static empty chunk was modified".into(), unsafe_mem: true });
        }
        let mut kh = Hasher128::new();
        for b in unsafe { std::slice::from_raw_parts(&case as *const Case as *const u8, std::mem::size_of::<Case>()) } {
            kh.u(*b as u64);
        }
        out.key = kh.finish();
        out.outcome = oc;
        out.terminal = true;
        out.violations = v;
        out
    }

    fn cov_names(&self) -> &'static [&'static str] {
        &[]
    }

    fn alt_answers(&self) -> Vec<Answer> {
        vec![]
    }

    fn describe(&self, h: &Hist<u8, Case>) -> serde_json::Value {
        if h.len == 0 {
            return serde_json::json!({"grid": format!("{:?}", self.kind)});
        }
        let c = h.steps[0].act;
        match c {
            Case::Ctor { mi, ctor } => {
                let cn = ["with_min_align", "with_min_align_and_capacity(100)", "try_with_min_align_and_capacity(100)", "default"][ctor as usize];
                serde_json::json!({"case": format!("{:?}", c), "min_align": MA_LIST[mi as usize], "constructor": cn})
            }
            Case::Ovf { entry, esz, cnt, m, nonempty } => crate::overflow::describe(entry, esz, cnt, m, nonempty),
            Case::Dec { which, a, b, c } => crate::decoders::describe_dec(which, a, b, c, self.thorough),
            Case::Bx { fam, build, steps, term, fault } => crate::boxmodel::describe(fam, build, steps, term, fault),
            _ => serde_json::json!({"case": format!("{:?}", c)}),
        }
    }
}

impl GridModel {
    pub fn cases(&self) -> Vec<Case> {
        let mut c = Vec::new();
        let t = self.thorough;
        match self.kind {
            GridKind::CtorMatrix => {
                for mi in 0..MA_LIST.len() as u8 {
                    for ctor in 0..4u8 {
                        c.push(Case::Ctor { mi, ctor });
                    }
                }
            }
            GridKind::Capacity => {
                let mut caps: Vec<u32> = (0..=600).collect();
                for k in 10..=20u32 {
                    for d in [65u32, 64, 63] {
                        caps.push((1 << k) - d);
                    }
                }
                caps.extend([4032, 4033, 8128, 8129, 1 << 16, 1 << 20]);
                caps.sort();
                caps.dedup();
                for m in [1u8, 2, 4, 8, 16] {
                    for &cap in &caps {
                        for via_b1 in [false, true] {
                            if via_b1 && m != 1 {
                                continue;
                            }
                            let units = cap / m as u32;
                            c.push(Case::Cap { m, cap, pat: 0, arg: 0, via_b1 });
                            c.push(Case::Cap { m, cap, pat: 1, arg: 0, via_b1 });
                            if units <= 70_000 {
                                c.push(Case::Cap { m, cap, pat: 2, arg: 0, via_b1 });
                            }
                            if cap <= 600 || t {
                                let step = if cap <= 600 { 1 } else { (units / 97).max(1) };
                                let mut i = 1;
                                while i < units {
                                    c.push(Case::Cap { m, cap, pat: 3, arg: i, via_b1 });
                                    i += step;
                                }
                            } else {
                                for i in [1, units / 2, units.saturating_sub(1)] {
                                    if i > 0 && i < units {
                                        c.push(Case::Cap { m, cap, pat: 3, arg: i, via_b1 });
                                    }
                                }
                            }
                            let maxu = if t { 12 } else { 9 };
                            if units >= 2 && units <= maxu {
                                for bits in 0..(1u32 << (units - 1)) {
                                    c.push(Case::Cap { m, cap, pat: 4, arg: bits, via_b1 });
                                }
                            }
                        }
                    }
                }
            }
            GridKind::Growth => {
                let logs: &[u8] = if t { &[12, 16, 20, 24, 26] } else { &[12, 16, 20, 22] };
                for m in [1u8, 2, 4, 8, 16] {
                    for wl in 0..10u8 {
                        for &lv in logs {
                            c.push(Case::Grow { m, wl, log_v: lv });
                        }
                    }
                }
            }
            GridKind::Overflow => c = crate::overflow::cases(t),
            GridKind::Decoders => c = crate::decoders::dec_cases(t),
            GridKind::VecGrowth => c = crate::decoders::vgrow_cases(t),
            GridKind::BoxChains => c = crate::boxmodel::cases(t),
            GridKind::CrossArena => c = crate::crossarena::cases(t),
            GridKind::Retry => c = crate::retry::cases(t),
        }
        c
    }
}

#[allow(dead_code)]
fn _u(_: PanicClass) {}
