//! Small shared helpers: panic capture, hashing, patterns, callback logs.

use std::cell::{Cell, RefCell};
use std::panic::{catch_unwind, AssertUnwindSafe};

use crate::env::{self, Answer, ExecEnv};

thread_local! {
    static IN_OP: Cell<bool> = const { Cell::new(false) };
    /// generic callback log: (kind, value)
    pub static CB_LOG: RefCell<Vec<(u8, u64)>> = const { RefCell::new(Vec::new()) };
    /// drop ledger: ids of dropped tokens, in order
    pub static DROPS: RefCell<Vec<u32>> = const { RefCell::new(Vec::new()) };
}

pub fn install_panic_hook() {
    std::panic::set_hook(Box::new(|info| {
        if !IN_OP.with(|c| c.get()) {
            // a panic outside an operation under test is a harness bug: show it
            eprintln!("MACHINERY PANIC: {}", info);
        }
    }));
}

#[derive(Clone, Debug, PartialEq, Eq, Hash)]
pub enum PanicClass {
    Oom,
    CapacityOverflow,
    SizeOverflow,
    /// collections: "encountered allocation error" (infallible reserve whose allocation failed)
    AllocError,
    /// a debug assertion / overflow check inside the crate (dbg profile)
    Assertion(String),
    /// harness-injected panic (callback fault)
    Injected,
    Other(String),
}

pub fn classify_panic(p: &(dyn std::any::Any + Send)) -> PanicClass {
    let s: String = if let Some(s) = p.downcast_ref::<&'static str>() {
        s.to_string()
    } else if let Some(s) = p.downcast_ref::<String>() {
        s.clone()
    } else if p.downcast_ref::<Injected>().is_some() {
        return PanicClass::Injected;
    } else {
        "<non-string payload>".to_string()
    };
    if s.contains("out of memory") {
        PanicClass::Oom
    } else if s.contains("capacity overflow") {
        PanicClass::CapacityOverflow
    } else if s.contains("requested allocation size overflowed") {
        PanicClass::SizeOverflow
    } else if s.contains("encountered allocation error") {
        PanicClass::AllocError
    } else if s.contains("assertion") || s.contains("overflow") || s.contains("should be") || s.contains("unsafe precondition") {
        PanicClass::Assertion(s.chars().take(120).collect())
    } else {
        PanicClass::Other(s.chars().take(120).collect())
    }
}

/// Payload type for harness-injected panics.
pub struct Injected;

pub fn injected_panic() -> ! {
    std::panic::resume_unwind(Box::new(Injected))
}

/// Run one arena operation inside an Env window, capturing panics.
pub fn arena_op<R>(envp: *mut ExecEnv, step: u32, arena: usize, script: &[Answer], f: impl FnOnce() -> R) -> Result<R, PanicClass> {
    unsafe { (*envp).begin_op(step, arena, script) };
    IN_OP.with(|c| c.set(true));
    let r = {
        let _w = env::Window::open();
        catch_unwind(AssertUnwindSafe(f))
    };
    env::reset_flags();
    IN_OP.with(|c| c.set(false));
    match r {
        Ok(v) => Ok(v),
        Err(p) => {
            let c = classify_panic(&*p);
            drop(p);
            Err(c)
        }
    }
}

/// Same, but continuing the current operation's request log (a follow-up probe or twin call is a
/// new operation, so this is only used for multi-call operations).
pub fn arena_op_cont<R>(f: impl FnOnce() -> R) -> Result<R, PanicClass> {
    IN_OP.with(|c| c.set(true));
    let r = {
        let _w = env::Window::open();
        catch_unwind(AssertUnwindSafe(f))
    };
    env::reset_flags();
    IN_OP.with(|c| c.set(false));
    match r {
        Ok(v) => Ok(v),
        Err(p) => {
            let c = classify_panic(&*p);
            drop(p);
            Err(c)
        }
    }
}

#[inline]
pub fn pat(tag: u32, epoch: u32, i: usize) -> u8 {
    ((tag as usize * 37 + epoch as usize * 101 + i * 11 + 3) % 251) as u8
}

pub struct Hasher128 {
    a: u64,
    b: u64,
}
impl Hasher128 {
    pub fn new() -> Self {
        Hasher128 { a: 0xcbf29ce484222325, b: 0x9e3779b97f4a7c15 }
    }
    #[inline]
    pub fn u(&mut self, x: u64) {
        self.a = (self.a ^ x).wrapping_mul(0x100000001b3);
        self.a ^= self.a >> 29;
        self.b = (self.b.rotate_left(23) ^ x).wrapping_mul(0xff51afd7ed558ccd);
        self.b ^= self.b >> 31;
    }
    pub fn finish(&self) -> u128 {
        ((self.a as u128) << 64) | self.b as u128
    }
    pub fn finish64(&self) -> u64 {
        self.a ^ self.b.rotate_left(17)
    }
}

pub fn log_clear() {
    CB_LOG.with(|l| l.borrow_mut().clear());
}
pub fn log_push(kind: u8, v: u64) {
    let _g = env::Callback::enter();
    CB_LOG.with(|l| l.borrow_mut().push((kind, v)));
}
pub fn log_take() -> Vec<(u8, u64)> {
    CB_LOG.with(|l| std::mem::take(&mut *l.borrow_mut()))
}
pub fn drops_clear() {
    DROPS.with(|l| l.borrow_mut().clear());
}
pub fn drops_snapshot() -> Vec<u32> {
    DROPS.with(|l| l.borrow().clone())
}
pub fn drops_count(id: u32) -> usize {
    DROPS.with(|l| l.borrow().iter().filter(|x| **x == id).count())
}

/// Error token with an observable destructor (C11, C16).
#[derive(Debug)]
pub struct ErrTok {
    pub id: u32,
}
impl Drop for ErrTok {
    fn drop(&mut self) {
        let _g = env::Callback::enter();
        DROPS.with(|l| l.borrow_mut().push(self.id));
    }
}

pub fn log2(x: usize) -> u8 {
    x.trailing_zeros() as u8
}

pub fn make_err(id: u32) -> ErrTok {
    ErrTok { id }
}

// ---- the crate's shared static sentinel: process-wide mutable state the executions share.
// A (mutated) crate that writes a *different* value into it would couple executions; we keep a
// pristine copy, detect any change after each execution and restore it before the next one.
static mut PRISTINE: [u8; 128] = [0; 128];
static mut PRISTINE_LEN: usize = 0;

pub fn init_pristine() {
    unsafe {
        let n = bumpalo::verif_hooks::footer_size().min(128);
        std::ptr::copy_nonoverlapping(bumpalo::verif_hooks::empty_chunk_addr(), std::ptr::addr_of_mut!(PRISTINE) as *mut u8, n);
        PRISTINE_LEN = n;
    }
}
pub fn static_dirty() -> bool {
    unsafe {
        let p = bumpalo::verif_hooks::empty_chunk_addr();
        let q = std::ptr::addr_of!(PRISTINE) as *const u8;
        for i in 0..PRISTINE_LEN {
            if std::ptr::read_volatile(p.add(i)) != *q.add(i) {
                return true;
            }
        }
        false
    }
}
pub fn restore_static() {
    unsafe {
        std::ptr::copy_nonoverlapping(std::ptr::addr_of!(PRISTINE) as *const u8, bumpalo::verif_hooks::empty_chunk_addr() as *mut u8, PRISTINE_LEN);
    }
}

/// Run reference-model code whose (expected) panics should not be reported as machinery panics.
pub fn quiet<R>(f: impl FnOnce() -> R) -> R {
    let old = IN_OP.with(|c| c.replace(true));
    let r = f();
    IN_OP.with(|c| c.set(old));
    r
}

/// Start-up self-test of Env's request classification (DESIGN.md §3.2): inside an operation window a
/// caught panic with a formatted message, a callback that allocates, and reference-model code under a
/// guard must produce no chunk request and no ledger fault; a real arena operation must produce one.
pub fn env_selftest(slab_bytes: usize) {
    let mut envb = ExecEnv::new(slab_bytes);
    let envp: *mut ExecEnv = &mut *envb;
    env::attach(envp);
    unsafe { (*envp).begin_execution() };
    let r = arena_op(envp, 1, 0, &[], || {
        {
            let _g = env::Callback::enter();
            let v: Vec<u64> = (0..100).collect();
            let s = format!("callback allocation {}", v.len());
            drop((v, s));
        }
        let x = 41;
        if x > 0 {
            // formatted lazily by the panic machinery (after the panic count is raised), like the crate's own asserts
            panic!("self-test panic with a formatted message: {x} {:>64}", x * 3);
        }
    });
    let n1 = unsafe { (*envp).reqs.len() + (*envp).faults.len() + (*envp).ledger.len() };
    let r2 = arena_op(envp, 2, 0, &[], || {
        let b = bumpalo::Bump::new();
        b.alloc(7u64);
        drop(b);
    });
    let (nreq, nled, nfault) = unsafe { ((*envp).reqs.len(), (*envp).ledger.len(), (*envp).faults.len()) };
    let live = unsafe { (*envp).live_count(0) };
    env::attach(std::ptr::null_mut());
    if r.is_ok() || n1 != 0 || r2.is_err() || nreq != 1 || nled != 1 || nfault != 0 || live != 0 {
        eprintln!("MACHINERY: Env classification self-test failed (panic caught: {}, stray events {}, arena op ok: {}, requests {}, ledger {}, faults {}, live {})", r.is_err(), n1, r2.is_ok(), nreq, nled, nfault, live);
        std::process::exit(2);
    }
}
