//! Containers of two arenas meeting in one call (`a_vec.append(&mut b_vec)`), and reservations carried across
//! `append` (round 8 gaps). C20: while only the destination is used, the donor's arena must not change (and
//! vice versa); C13: contents as std, capacity >= length and >= what was promised while the length stays within
//! the promise; C18: a reserved buffer that still fits does not move.

use crate::env::ExecEnv;
use crate::grid::Case;
use crate::mc::Violation;
use crate::util::{arena_op, Hasher128};
use bumpalo::collections::Vec as BVec;
use bumpalo::Bump;

pub const DEST_SHAPES: [&str; 6] = ["new_in", "with_capacity_in(4)", "new_in + 2 pushes", "with_capacity_in(16) + 2 pushes", "with_capacity_in(100)", "3 pushes + reserve(50)"];
pub const DONOR_SHAPES: [&str; 4] = ["new_in", "1 push", "with_capacity_in(16) + 5 pushes", "200 pushes"];
pub const AFTER: [usize; 4] = [0, 1, 40, 1000];

pub fn cases(_t: bool) -> Vec<Case> {
    let mut c = Vec::new();
    for esz in 0..5u8 {
        for dest in 0..DEST_SHAPES.len() as u8 {
            for donor in 0..DONOR_SHAPES.len() as u8 {
                for after in 0..AFTER.len() as u8 {
                    for same in [false, true] {
                        c.push(Case::Cross { esz, dest, donor, after, same });
                    }
                }
            }
        }
    }
    c
}

type Fail = (u8, &'static str, String, String);

fn stats(b: &Bump) -> (usize, usize, usize) {
    (b.allocated_bytes(), b.chunk_capacity(), b.allocated_bytes_including_metadata())
}

fn typed<T: Copy + PartialEq + 'static>(envp: *mut ExecEnv, dest: u8, donor: u8, after: u8, same: bool, va: T, vb: T, v: &mut Vec<Violation>) -> u64 {
    unsafe { (*envp).policy.cap = (*envp).slabs[0].size };
    let ba: Bump = arena_op(envp, 0, 0, &[], Bump::new).unwrap();
    let bb: Bump = arena_op(envp, 0, 1, &[], Bump::new).unwrap();
    let k = AFTER[after as usize];
    let mut h = Hasher128::new();
    let mut fails: Vec<Fail> = Vec::new();
    {
        let oa = if same { 0 } else { 1 };
        let ob: &Bump = if same { &ba } else { &bb };
        // 1. destination in arena A
        let d = arena_op(envp, 1, 0, &[], || {
            let mut d: BVec<T> = match dest {
                1 => BVec::with_capacity_in(4, &ba),
                3 => BVec::with_capacity_in(16, &ba),
                4 => BVec::with_capacity_in(100, &ba),
                _ => BVec::new_in(&ba),
            };
            match dest {
                2 | 3 => { d.push(va); d.push(va); }
                5 => { d.push(va); d.push(va); d.push(va); d.reserve(50); }
                _ => {}
            }
            d
        });
        let mut d = match d {
            Ok(d) => d,
            Err(p) => {
                v.push(Violation { prop: 13, clause: "cross_arena", key: "cross_arena/panic_building_destination".into(), detail: format!("{:?}", p), unsafe_mem: false });
                return 0;
            }
        };
        let promise = [0usize, 4, 0, 16, 100, 53][dest as usize];
        // 2. donor in arena B (or A)
        let o = arena_op(envp, 2, oa, &[], || {
            let mut o: BVec<T> = if donor == 2 { BVec::with_capacity_in(16, ob) } else { BVec::new_in(ob) };
            for _ in 0..[0usize, 1, 5, 200][donor as usize] {
                o.push(vb);
            }
            o
        });
        let mut o = match o {
            Ok(o) => o,
            Err(p) => {
                v.push(Violation { prop: 13, clause: "cross_arena", key: "cross_arena/panic_building_donor".into(), detail: format!("{:?}", p), unsafe_mem: false });
                return 0;
            }
        };
        let (dl, ol) = (d.len(), o.len());
        let (p0, c0) = (d.as_ptr() as usize, d.capacity());
        let sb = stats(&bb);
        // 3. the call in which the two meet; then the destination grows on its own
        let r = arena_op(envp, 3, 0, &[], || -> Option<Fail> {
            d.append(&mut o);
            if d.len() != dl + ol || o.len() != 0 || d[..dl].iter().any(|x| *x != va) || d[dl..].iter().any(|x| *x != vb) {
                return Some((13, "values_differ", "values_differ/append".into(), format!("append of {} onto {} elements: lengths {} / {} or wrong contents", ol, dl, d.len(), o.len())));
            }
            if d.capacity() < d.len() {
                return Some((13, "capacity_below_length", "capacity_below_length/append".into(), format!("capacity {} < length {}", d.capacity(), d.len())));
            }
            if promise > 0 && dl + ol <= promise {
                if d.capacity() < promise {
                    return Some((13, "reserve_promise_broken", "reserve_promise_broken/append".into(), format!("room for {} elements was promised; after an append that ends at {} elements the capacity is {}", promise, d.len(), d.capacity())));
                }
                if std::mem::size_of::<T>() != 0 && (d.as_ptr() as usize != p0 || d.capacity() != c0) {
                    return Some((18, "vec_capacity", "reserved_capacity_not_stable/append".into(), format!("an append that fits the reserved capacity ({} of {}) moved the buffer or changed the capacity ({} -> {})", d.len(), c0, c0, d.capacity())));
                }
            }
            if !same && stats(&bb) != sb {
                return Some((20, "other_arena_changed", "other_arena_changed/append".into(), format!("the donor's arena changed during append into a vector of another arena: {:?} -> {:?}", sb, stats(&bb))));
            }
            for i in 0..k {
                d.push(va);
                if !same && stats(&bb) != sb {
                    return Some((20, "other_arena_changed", "other_arena_changed/destination_growth_after_append".into(), format!("push {} into the destination after the append changed the idle donor's arena: {:?} -> {:?}", i + 1, sb, stats(&bb))));
                }
            }
            if d.len() != dl + ol + k || d.capacity() < d.len() {
                return Some((13, "values_differ", "values_differ/push_after_append".into(), format!("length {} capacity {} after {} more pushes", d.len(), d.capacity(), k)));
            }
            None
        });
        match r {
            Ok(None) => {}
            Ok(Some(f)) => fails.push(f),
            Err(p) => fails.push((13, "panics_differ", "panics_differ/append".into(), format!("{:?}", p))),
        }
        // 4. the emptied donor grows on its own
        let sa = stats(&ba);
        let r = arena_op(envp, 4, oa, &[], || -> Option<Fail> {
            for i in 0..k {
                o.push(vb);
                if !same && stats(&ba) != sa {
                    return Some((20, "other_arena_changed", "other_arena_changed/donor_growth_after_append".into(), format!("push {} into the emptied donor changed the idle destination's arena: {:?} -> {:?}", i + 1, sa, stats(&ba))));
                }
            }
            if o.len() != k || o.iter().any(|x| *x != vb) || o.capacity() < o.len() {
                return Some((13, "values_differ", "values_differ/donor_after_append".into(), format!("donor has {} elements (capacity {}) after {} pushes", o.len(), o.capacity(), k)));
            }
            None
        });
        match r {
            Ok(None) => {}
            Ok(Some(f)) => fails.push(f),
            Err(p) => fails.push((13, "panics_differ", "panics_differ/push_after_append".into(), format!("{:?}", p))),
        }
        h.u(d.len() as u64);
        h.u((d.as_ptr() as usize != p0) as u64);
        h.u(o.capacity().min(1 << 20) as u64);
        let _ = arena_op(envp, 5, 0, &[], move || drop(d));
        let _ = arena_op(envp, 5, oa, &[], move || drop(o));
    }
    for (prop, clause, key, detail) in fails {
        h.u(prop as u64);
        v.push(Violation { prop, clause, key, detail: format!("Vec<{} bytes>, destination {}, donor {} ({}), then {} pushes each: {}", std::mem::size_of::<T>(), DEST_SHAPES[dest as usize], DONOR_SHAPES[donor as usize], if same { "same arena" } else { "another arena" }, k, detail), unsafe_mem: false });
    }
    let _ = arena_op(envp, 6, 0, &[], move || drop(ba));
    let _ = arena_op(envp, 6, 1, &[], move || drop(bb));
    let left = unsafe { (*envp).live_count(1) };
    if left != 0 {
        v.push(Violation { prop: 3, clause: "leak_after_drop", key: "leak_after_drop/grid".into(), detail: format!("{left} block(s) of the second arena still held after it was dropped"), unsafe_mem: false });
    }
    h.finish64()
}

pub fn run_case(envp: *mut ExecEnv, esz: u8, dest: u8, donor: u8, after: u8, same: bool, v: &mut Vec<Violation>) -> u64 {
    match esz {
        0 => typed::<()>(envp, dest, donor, after, same, (), (), v),
        1 => typed::<u8>(envp, dest, donor, after, same, 1, 2, v),
        2 => typed::<u64>(envp, dest, donor, after, same, 1, 2, v),
        3 => typed::<[u8; 24]>(envp, dest, donor, after, same, [1; 24], [2; 24], v),
        _ => typed::<[u8; 100]>(envp, dest, donor, after, same, [1; 100], [2; 100], v),
    }
}
