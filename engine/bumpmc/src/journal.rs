//! Crash journal (DESIGN.md §3.6): every worker stores the raw bytes of the history it is about
//! to execute in a fixed static buffer; fatal signals, Env's non-termination guard and the
//! stall watchdog dump the in-flight history (hex) to a file and exit with a distinctive code.
//! The driver then replays the suspect history in fresh processes.

use std::cell::{Cell, UnsafeCell};
use std::sync::atomic::{AtomicI32, AtomicU64, AtomicUsize, Ordering};

pub const MAX_WORKERS: usize = 64;
pub const JBYTES: usize = 2048;

pub const FATAL_SIGNAL: i32 = 70; // SIGSEGV / SIGBUS / SIGILL / SIGFPE / SIGABRT
pub const FATAL_NONTERM: i32 = 71; // Env saw the same refused request NONTERM_LIMIT times
pub const FATAL_STALL: i32 = 72; // watchdog: no heartbeat

struct Slot {
    len: AtomicUsize,
    beat: AtomicU64,
    busy: AtomicU64,
    buf: UnsafeCell<[u8; JBYTES]>,
}
unsafe impl Sync for Slot {}

#[allow(clippy::declare_interior_mutable_const)]
const SLOT0: Slot = Slot { len: AtomicUsize::new(0), beat: AtomicU64::new(0), busy: AtomicU64::new(0), buf: UnsafeCell::new([0; JBYTES]) };
static SLOTS: [Slot; MAX_WORKERS] = [SLOT0; MAX_WORKERS];
static DUMP_FD: AtomicI32 = AtomicI32::new(-1);

thread_local! {
    static MY_SLOT: Cell<usize> = const { Cell::new(usize::MAX) };
}

pub fn set_worker(idx: usize) {
    MY_SLOT.with(|s| s.set(idx));
}

/// Record the history about to be executed (raw bytes of a POD value).
#[inline]
pub fn record<T: Copy>(h: &T) {
    let idx = MY_SLOT.with(|s| s.get());
    if idx >= MAX_WORKERS {
        return;
    }
    let n = std::mem::size_of::<T>();
    assert!(n <= JBYTES);
    let slot = &SLOTS[idx];
    unsafe {
        std::ptr::copy_nonoverlapping(h as *const T as *const u8, (*slot.buf.get()).as_mut_ptr(), n);
    }
    slot.len.store(n, Ordering::Release);
    slot.beat.fetch_add(1, Ordering::Relaxed);
    slot.busy.store(1, Ordering::Relaxed);
}

#[inline]
pub fn idle() {
    let idx = MY_SLOT.with(|s| s.get());
    if idx < MAX_WORKERS {
        SLOTS[idx].busy.store(0, Ordering::Relaxed);
    }
}

fn hex_dump(fd: i32, tag: &[u8], idx: usize) {
    unsafe {
        libc::write(fd, tag.as_ptr() as *const _, tag.len());
        if idx < MAX_WORKERS {
            let slot = &SLOTS[idx];
            let n = slot.len.load(Ordering::Acquire);
            let buf = &*slot.buf.get();
            let hexd = b"0123456789abcdef";
            let mut out = [0u8; 2 * JBYTES + 1];
            for i in 0..n {
                out[2 * i] = hexd[(buf[i] >> 4) as usize];
                out[2 * i + 1] = hexd[(buf[i] & 15) as usize];
            }
            out[2 * n] = b'\n';
            libc::write(fd, out.as_ptr() as *const _, 2 * n + 1);
        } else {
            libc::write(fd, b"\n".as_ptr() as *const _, 1);
        }
    }
}

/// Dump the calling thread's in-flight history and exit. Async-signal-safe.
pub fn fatal(code: i32) -> ! {
    let idx = MY_SLOT.with(|s| s.get());
    fatal_for(code, idx)
}

pub fn fatal_for(code: i32, idx: usize) -> ! {
    let fd = DUMP_FD.load(Ordering::Relaxed);
    let tag: &[u8] = match code {
        FATAL_SIGNAL => b"FATAL signal ",
        FATAL_NONTERM => b"FATAL nonterm ",
        FATAL_STALL => b"FATAL stall ",
        _ => b"FATAL other ",
    };
    if fd >= 0 {
        hex_dump(fd, tag, idx);
    }
    hex_dump(2, tag, idx);
    unsafe { libc::_exit(code) }
}

extern "C" fn on_signal(_sig: i32) {
    fatal(FATAL_SIGNAL)
}

/// Install fatal-signal handlers (on an alternate stack) and open the dump file.
pub fn install(dump_path: Option<&str>) {
    unsafe {
        if let Some(p) = dump_path {
            let c = std::ffi::CString::new(p).unwrap();
            let fd = libc::open(c.as_ptr(), libc::O_WRONLY | libc::O_CREAT | libc::O_TRUNC, 0o644);
            DUMP_FD.store(fd, Ordering::SeqCst);
        }
        for sig in [libc::SIGSEGV, libc::SIGBUS, libc::SIGILL, libc::SIGFPE, libc::SIGABRT] {
            let mut sa: libc::sigaction = std::mem::zeroed();
            sa.sa_sigaction = on_signal as usize;
            sa.sa_flags = libc::SA_ONSTACK | libc::SA_NODEFER;
            libc::sigemptyset(&mut sa.sa_mask);
            libc::sigaction(sig, &sa, std::ptr::null_mut());
        }
    }
}

/// Give the current thread an alternate signal stack (needed to report stack overflows).
pub fn install_altstack() {
    unsafe {
        let size = 64 * 1024;
        let p = libc::mmap(std::ptr::null_mut(), size, libc::PROT_READ | libc::PROT_WRITE, libc::MAP_PRIVATE | libc::MAP_ANONYMOUS, -1, 0);
        let ss = libc::stack_t { ss_sp: p, ss_flags: 0, ss_size: size };
        libc::sigaltstack(&ss, std::ptr::null_mut());
    }
}

/// Watchdog: a worker that stays on the same history for `stall_s` seconds is reported.
pub fn spawn_watchdog(stall_s: u64) {
    std::thread::spawn(move || {
        let mut last = [0u64; MAX_WORKERS];
        let mut since = [0u64; MAX_WORKERS];
        loop {
            std::thread::sleep(std::time::Duration::from_secs(1));
            for i in 0..MAX_WORKERS {
                let b = SLOTS[i].beat.load(Ordering::Relaxed);
                let busy = SLOTS[i].busy.load(Ordering::Relaxed) != 0;
                if busy && b == last[i] && b != 0 {
                    since[i] += 1;
                    if since[i] >= stall_s {
                        fatal_for(FATAL_STALL, i);
                    }
                } else {
                    since[i] = 0;
                    last[i] = b;
                }
            }
        }
    });
}

pub fn to_hex(bytes: &[u8]) -> String {
    let mut s = String::with_capacity(bytes.len() * 2);
    for b in bytes {
        s.push_str(&format!("{:02x}", b));
    }
    s
}

pub fn from_hex(s: &str) -> Vec<u8> {
    let s = s.trim();
    (0..s.len() / 2).map(|i| u8::from_str_radix(&s[2 * i..2 * i + 2], 16).unwrap()).collect()
}
