//! Differential explicit-state search: an arena-backed Vec (plus neighbours in the same arena)
//! and a std Vec fed the same calls (C13), with drop ledgers (C15) and callback panic points (C16).

use super::elem::*;
use super::veclike::*;
use crate::env::{Callback, ExecEnv};
use crate::mc::{Hist, Model, RunOut, Violation, Worker};
use crate::util::{arena_op, classify_panic, pat, Hasher128, PanicClass};
use bumpalo::boxed::Box as BBox;
use bumpalo::collections::{String as BString, Vec as BVec};
use bumpalo::Bump;
use std::alloc::Layout;
use std::marker::PhantomData;
use std::panic::{catch_unwind, AssertUnwindSafe};

#[derive(Clone, Copy, Debug, PartialEq, Eq, Hash)]
#[repr(C)]
pub struct FAct {
    pub a: VAct,
    /// callback kinds whose `fi`-th invocation panics (0 = no fault)
    pub fk: u8,
    pub fi: u8,
}

#[derive(Clone, Copy, Debug)]
#[repr(C)]
pub struct VCfg {
    /// 0 = D, 1 = u8, 2 = Z
    pub elem: u8,
    /// 0 = bumpalo::collections::Vec, 1 = allocator_api2::vec::Vec<_, &Bump>
    pub container: u8,
    pub start_cap: u8,
    /// initial contents: `prefill_len` elements whose values are the low bits of `prefill_bits`
    pub prefill_len: u8,
    pub prefill_bits: u8,
}

#[derive(Clone, Copy, Debug, PartialEq, Eq)]
pub enum VMode {
    /// C13/C15: differential against std
    Diff,
    /// C16: one panicking callback invocation per final action
    Faults,
}

pub struct VecModel {
    /// 0 = bumpalo::collections::Vec, 1 = allocator_api2::vec::Vec<_, &Bump>
    pub container: u8,
    pub mode: VMode,
    pub thorough: bool,
    pub max_len: usize,
    pub max_depth: usize,
}

struct VWorld<E: Elem, V: VecLike<E>, S: VecLike<E>> {
    envp: *mut ExecEnv,
    bump: *mut Bump,
    bv: Option<V>,
    sv: Option<S>,
    labels: Labels,
    sib_v: Option<BVec<'static, u8>>,
    sib_v_ref: Vec<u8>,
    sib_s: Option<BString<'static>>,
    sib_s_ref: String,
    boxes: Vec<(BBox<'static, D>, u32)>,
    canaries: Vec<(usize, u32)>,
    viol: Vec<Violation>,
    judge: bool,
    step: u32,
    outcome: u64,
    diverged: bool,
    leaked_labels: Vec<u32>,
    _p: PhantomData<E>,
}

fn v(viol: &mut Vec<Violation>, prop: u8, clause: &'static str, key: String, detail: String) {
    viol.push(Violation { prop, clause, key, detail, unsafe_mem: false });
}

pub fn act_name(a: &VAct) -> &'static str {
    match a {
        VAct::Nop => "nop",
        VAct::Push { .. } => "push",
        VAct::Pop => "pop",
        VAct::Insert { .. } => "insert",
        VAct::Remove { .. } => "remove",
        VAct::SwapRemove { .. } => "swap_remove",
        VAct::Truncate { .. } => "truncate",
        VAct::Clear => "clear",
        VAct::Resize { .. } => "resize",
        VAct::ExtendIter { .. } => "extend",
        VAct::ExtendFromSlice { .. } => "extend_from_slice",
        VAct::ExtendCopy { .. } => "extend_from_slice_copy",
        VAct::ExtendCopies { .. } => "extend_from_slices_copy",
        VAct::ExtendRefs { .. } => "extend_refs",
        VAct::Append { .. } => "append",
        VAct::SplitOff { .. } => "split_off",
        VAct::Drain { .. } => "drain",
        VAct::Splice { .. } => "splice",
        VAct::Retain { .. } => "retain",
        VAct::DrainFilter { .. } => "drain_filter",
        VAct::Dedup => "dedup",
        VAct::DedupBy { .. } => "dedup_by",
        VAct::DedupByKey { .. } => "dedup_by_key",
        VAct::Reserve { .. } => "reserve",
        VAct::ReserveExact { .. } => "reserve_exact",
        VAct::TryReserve { .. } => "try_reserve",
        VAct::TryReserveExact { .. } => "try_reserve_exact",
        VAct::TryReserveRefused { .. } => "try_reserve_refused_by_arena",
        VAct::ShrinkToFit => "shrink_to_fit",
        VAct::CloneCmp => "clone",
        VAct::IntoIter { .. } => "into_iter",
        VAct::IntoIterX { .. } => "into_iter_methods",
        VAct::Inspect { .. } => "inspect",
        VAct::IntoBumpSlice { .. } => "into_bump_slice",
        VAct::IntoBoxed => "into_boxed_slice",
        VAct::FromIterIn { .. } => "from_iter_in",
        VAct::CollectIn { .. } => "collect_in",
        VAct::VecMacro { .. } => "vec_macro",
        VAct::WithCap { .. } => "with_capacity_in",
        VAct::WriteIo { .. } => "io_write",
        VAct::Index { .. } => "index",
        VAct::SetLenDropAll => "drop",
        VAct::Canary => "neighbour_raw_alloc",
        VAct::SibPush => "neighbour_vec_push",
        VAct::SibStr => "neighbour_string_push",
        VAct::SibBox => "neighbour_box",
    }
}

/// Apply one action to one world's container. Generic over the container type only.
fn apply<E: Elem, V: VecLike<E>>(slot: &mut Option<V>, world: u8, act: VAct, labels: &mut Labels, leaked: &mut Vec<u32>) -> Obs {
    let mut obs = Obs::default();
    let vec = slot.as_mut().unwrap();
    let n = vec.sl().len();
    let mut call = 0usize;
    match act {
        VAct::Nop | VAct::Canary | VAct::SibPush | VAct::SibStr | VAct::SibBox => {}
        VAct::Push { val } => vec.v_push(E::mk(world, labels.take(), val)),
        VAct::Pop => match vec.v_pop() {
            Some(e) => obs.el(&e),
            None => obs.n(-1),
        },
        VAct::Insert { i, val } => vec.v_insert(ix(i, n), E::mk(world, labels.take(), val)),
        VAct::Remove { i } => {
            let e = vec.v_remove(ix(i, n));
            obs.el(&e)
        }
        VAct::SwapRemove { i } => {
            let e = vec.v_swap_remove(ix(i, n));
            obs.el(&e)
        }
        VAct::Truncate { i } => vec.v_truncate(ix(i, n)),
        VAct::Clear => vec.v_clear(),
        VAct::Resize { i, val } => vec.v_resize(ix(i, n), E::mk(world, labels.take(), val)),
        VAct::ExtendIter { n: k, hint } => vec.v_extend(src(world, labels, k as usize, hint)),
        VAct::ExtendFromSlice { n: k } => {
            let items: Vec<E> = {
                let _g = Callback::enter();
                (0..k).map(|j| E::mk(world, labels.take(), j % 2)).collect()
            };
            vec.v_extend_from_slice(&items);
            let _g = Callback::enter();
            drop(items);
        }
        VAct::ExtendCopy { n: k } => {
            let items: Vec<E> = {
                let _g = Callback::enter();
                (0..k).map(|j| E::mk(world, labels.take(), j % 2)).collect()
            };
            E::copy_op(vec, 0, &items, &[]);
            let _g = Callback::enter();
            drop(items);
        }
        VAct::ExtendCopies { a, b } => {
            let (ia, ib): (Vec<E>, Vec<E>) = {
                let _g = Callback::enter();
                ((0..a).map(|j| E::mk(world, labels.take(), j % 2)).collect(), (0..b).map(|j| E::mk(world, labels.take(), (j + 1) % 2)).collect())
            };
            E::copy_op(vec, 1, &ia, &ib);
            let _g = Callback::enter();
            drop((ia, ib));
        }
        VAct::ExtendRefs { n: k } => {
            let items: Vec<E> = {
                let _g = Callback::enter();
                (0..k).map(|j| E::mk(world, labels.take(), j % 2)).collect()
            };
            E::copy_op(vec, 2, &items, &[]);
            let _g = Callback::enter();
            drop(items);
        }
        VAct::Append { n: k } => {
            // n >= 100: a donor with a large reserved buffer (several pages) holding n - 100 elements
            let mut other = if k >= 100 {
                let mut o = vec.with_cap(1500);
                for _ in 0..(k - 100) {
                    o.v_push(E::mk(world, labels.take(), 1));
                }
                o
            } else {
                vec.from_iter_like(src(world, labels, k as usize, 0), 0)
            };
            vec.v_append(&mut other);
            obs.n(other.sl().len() as i64);
            drop(other);
        }
        VAct::SplitOff { i } => {
            let mut other = vec.v_split_off(ix(i, n));
            obs.n(other.sl().len() as i64);
            for e in other.sl() {
                obs.el(e);
            }
            // the halves are independent vectors: grow the head while the tail is alive and read the tail again
            // (and the other way round); the extra elements are removed again
            vec.v_push(E::mk(world, labels.take(), 1));
            for e in other.sl() {
                obs.el(e);
            }
            other.v_push(E::mk(world, labels.take(), 0));
            for e in vec.sl() {
                obs.el(e);
            }
            drop(vec.v_pop());
            drop(other);
        }
        VAct::Drain { r, mode } => vec.v_drain(bounds(r, n), mode, &mut obs),
        VAct::Splice { r, n: k, hint, mode } => {
            let s = src(world, labels, k as usize, hint);
            vec.v_splice(bounds(r, n), s, mode, &mut obs)
        }
        VAct::Retain { p } => {
            let mut clog = Obs::default();
            vec.v_retain(&mut |e: &E| {
                tick(K_PRED, world);
                clog.el(e);
                let r = pred(p, call, e.val());
                call += 1;
                r
            });
            obs.n(clog.digest());
        }
        VAct::DrainFilter { p, mode } => {
            let mut clog = Obs::default();
            vec.v_drain_filter(
                &mut |e: &mut E| {
                    tick(K_PRED, world);
                    clog.el(e);
                    let r = pred(p, call, e.val());
                    call += 1;
                    r
                },
                mode,
                &mut obs,
            );
            obs.n(clog.digest());
        }
        VAct::Dedup => vec.v_dedup(),
        VAct::DedupBy { p } => {
            // the arguments (which element is the candidate, which the last retained one) are part of the
            // contract: log them, and include an asymmetric predicate
            let mut clog = Obs::default();
            vec.v_dedup_by(&mut |a: &mut E, b: &mut E| {
                tick(K_PRED, world);
                clog.el(a);
                clog.el(b);
                match p {
                    0 => true,
                    1 => false,
                    5 => a.val() > b.val(),
                    6 => a.val() < b.val(),
                    _ => a.val() == b.val(),
                }
            });
            obs.n(clog.digest());
        }
        VAct::DedupByKey { p } => {
            let mut clog = Obs::default();
            vec.v_dedup_by_key(&mut |a: &mut E| {
                tick(K_KEY, world);
                clog.el(a);
                if p == 0 {
                    a.val()
                } else {
                    7
                }
            });
            obs.n(clog.digest());
        }
        VAct::Reserve { i } => vec.v_reserve(ix(i, n)),
        VAct::ReserveExact { i } => vec.v_reserve_exact(ix(i, n)),
        VAct::TryReserve { i } => {
            let ok = vec.v_try_reserve(ix(i, n));
            obs.n(ok as i64)
        }
        VAct::TryReserveExact { i } => {
            let ok = vec.v_try_reserve_exact(ix(i, n));
            obs.n(ok as i64)
        }
        VAct::TryReserveRefused { .. } => unreachable!("handled in step()"),
        VAct::ShrinkToFit => vec.v_shrink(),
        VAct::CloneCmp => {
            let c = vec.v_clone();
            obs.n(c.sl().len() as i64);
            for e in c.sl() {
                obs.n(e.val() as i64);
            }
            obs.n(c.sl().iter().zip(vec.sl().iter()).all(|(a, b)| a.val() == b.val()) as i64);
            drop(c);
        }
        VAct::Inspect { k } => {
            let mut other = vec.v_clone();
            if k == 1 && n > 0 {
                // compare with a vector that differs in its last element or is one shorter
                other.v_pop();
            }
            vec.v_inspect(&other, k, &mut obs);
            drop(other);
        }
        VAct::IntoIterX { k } => {
            let fresh = vec.fresh();
            let old = slot.replace(fresh).unwrap();
            old.v_into_iter_x(k, &mut obs);
        }
        VAct::IntoIter { front, back, forget } => {
            let fresh = vec.fresh();
            let old = slot.replace(fresh).unwrap();
            if forget {
                // what is neither yielded nor dropped is leaked
                let k = old.sl().len();
                let f = (front as usize).min(k);
                let b = (back as usize).min(k - f);
                let _g = Callback::enter();
                for e in &old.sl()[f..k - b] {
                    leaked.push(e.label());
                }
            }
            old.v_into_iter(front, back, forget, &mut obs);
        }
        VAct::IntoBumpSlice { mutable } => {
            let fresh = vec.fresh();
            let old = slot.replace(fresh).unwrap();
            let s = old.v_leak(mutable);
            obs.n(s.len() as i64);
            let _g = Callback::enter();
            for e in s {
                obs.el(e);
                leaked.push(e.label());
            }
        }
        VAct::IntoBoxed => {
            let fresh = vec.fresh();
            let old = slot.replace(fresh).unwrap();
            old.v_into_boxed(&mut obs);
        }
        VAct::FromIterIn { n: k, hint } => {
            let nv = vec.from_iter_like(src(world, labels, k as usize, hint), 0);
            let old = slot.replace(nv).unwrap();
            drop(old);
        }
        VAct::CollectIn { n: k } => {
            // n >= 100: the Option / Result forms of collect_in (how = (n - 100) / 50 + 2) over 3 elements
            let (cnt, how) = if k >= 100 { (3usize, (k - 100) / 50 + 2) } else { (k as usize, 1) };
            let nv = vec.from_iter_like(src(world, labels, cnt, 1), how);
            let old = slot.replace(nv).unwrap();
            drop(old);
        }
        VAct::VecMacro { n: k, repeat } => {
            let nv = if repeat {
                // vec![x; n]: n-1 clones and the original
                vec.repeat_like(E::mk(world, labels.take(), 1), k as usize)
            } else {
                let items: Vec<E> = {
                    let _g = Callback::enter();
                    (0..k).map(|j| E::mk(world, labels.take(), j % 2)).collect()
                };
                vec.macro_like(items)
            };
            let old = slot.replace(nv).unwrap();
            drop(old);
        }
        VAct::WithCap { n: k } => {
            let nv = vec.with_cap(k as usize);
            obs.n((nv.cap() >= k as usize) as i64);
            let old = slot.replace(nv).unwrap();
            drop(old);
        }
        VAct::WriteIo { n: k, all } => {
            let data: Vec<u8> = {
                let _g = Callback::enter();
                (0..k).map(|j| j % 2).collect()
            };
            let r = vec.v_write(&data, all);
            obs.n(r.unwrap_or(-7));
            let _g = Callback::enter();
            drop(data);
        }
        VAct::Index { i } => {
            let e = &vec.sl()[ix(i, n)];
            obs.el(e);
        }
        VAct::SetLenDropAll => {
            let fresh = vec.fresh();
            let old = slot.replace(fresh).unwrap();
            drop(old);
        }
    }
    obs
}

impl<E: Elem, V: VecLike<E>, S: VecLike<E>> VWorld<E, V, S> {
    fn contents_eq(&self) -> Option<String> {
        let b = self.bv.as_ref().unwrap().sl();
        let s = self.sv.as_ref().unwrap().sl();
        if b.len() != s.len() {
            return Some(format!("length {} vs std {}", b.len(), s.len()));
        }
        for (i, (x, y)) in b.iter().zip(s.iter()).enumerate() {
            if x.val() != y.val() || x.label() != y.label() {
                return Some(format!("element {i}: (label {}, value {}) vs std (label {}, value {})", x.label(), x.val(), y.label(), y.val()));
            }
        }
        None
    }

    fn neighbours_ok(&mut self, what: &'static str) {
        for (a, tag) in &self.canaries {
            for j in 0..8 {
                if unsafe { *((*a + j) as *const u8) } != pat(*tag, 0, j) {
                    v(&mut self.viol, 13, "neighbour_disturbed", format!("neighbour_disturbed/raw/{what}"), format!("{what}: a raw 8-byte allocation in the same arena was overwritten"));
                    return;
                }
            }
        }
        if let Some(sv) = &self.sib_v {
            if sv[..] != self.sib_v_ref[..] {
                v(&mut self.viol, 13, "neighbour_disturbed", format!("neighbour_disturbed/vec/{what}"), format!("{what}: a sibling Vec<u8> in the same arena changed"));
            }
        }
        if let Some(ss) = &self.sib_s {
            if ss.as_str() != self.sib_s_ref.as_str() {
                v(&mut self.viol, 13, "neighbour_disturbed", format!("neighbour_disturbed/string/{what}"), format!("{what}: a sibling String in the same arena changed"));
            }
        }
        for (b, label) in &self.boxes {
            if b.label != *label || b.val != 1 || drop_count(0, *label) != 0 {
                v(&mut self.viol, 13, "neighbour_disturbed", format!("neighbour_disturbed/box/{what}"), format!("{what}: a Box in the same arena changed or had its value dropped"));
            }
        }
    }

    fn bump(&self) -> &'static Bump {
        unsafe { &*self.bump }
    }

    fn step(&mut self, fa: FAct) {
        let what = act_name(&fa.a);
        let envp = self.envp;
        let step = self.step;
        match fa.a {
            VAct::Canary => {
                let b = self.bump();
                let r = arena_op(envp, step, 0, &[], || b.alloc_layout(Layout::from_size_align(8, 1).unwrap()).as_ptr() as usize);
                if let Ok(a) = r {
                    let tag = 500 + self.canaries.len() as u32;
                    for j in 0..8 {
                        unsafe { *((a + j) as *mut u8) = pat(tag, 0, j) };
                    }
                    let _g = Callback::enter();
                    self.canaries.push((a, tag));
                }
                self.neighbours_ok(what);
                return;
            }
            VAct::SibPush => {
                if self.sib_v.is_none() {
                    self.sib_v = Some(BVec::new_in(self.bump()));
                }
                let x = 0x40 + self.sib_v_ref.len() as u8;
                let sv = self.sib_v.as_mut().unwrap();
                let _ = arena_op(envp, step, 0, &[], || sv.push(x));
                let _g = Callback::enter();
                self.sib_v_ref.push(x);
                drop(_g);
                self.neighbours_ok(what);
                return;
            }
            VAct::SibStr => {
                if self.sib_s.is_none() {
                    self.sib_s = Some(BString::new_in(self.bump()));
                }
                let ss = self.sib_s.as_mut().unwrap();
                let _ = arena_op(envp, step, 0, &[], || ss.push_str("é€"));
                let _g = Callback::enter();
                self.sib_s_ref.push_str("é€");
                drop(_g);
                self.neighbours_ok(what);
                return;
            }
            VAct::SibBox => {
                let label = 4_000_000_000 + self.boxes.len() as u32;
                let b = self.bump();
                let r = arena_op(envp, step, 0, &[], || BBox::new_in(D::new(0, label, 1), b));
                if let Ok(bx) = r {
                    let _g = Callback::enter();
                    self.boxes.push((bx, label));
                }
                self.neighbours_ok(what);
                return;
            }
            _ => {}
        }
        let mut fa = fa;
        if let VAct::TryReserveRefused { exact } = fa.a {
            // (1) a reservation the arena refuses, (2) a neighbour allocated right afterwards, (3) two more elements:
            // a failed try_reserve must leave the buffer owned by the vector, so (2) cannot land on it
            let amount = (3usize << 20) / std::mem::size_of::<E>().max(1);
            let bv = self.bv.as_mut().unwrap();
            let r = arena_op(envp, step, 0, &[], || if exact { bv.v_try_reserve_exact(amount) } else { bv.v_try_reserve(amount) });
            if let Err(p) = &r {
                v(&mut self.viol, 13, "panics_where_std_does_not", "panics_where_std_does_not/try_reserve_refused_by_arena".into(), format!("try_reserve of {amount} elements (refused by the allocator) panicked: {:?}", p));
            }
            let b = self.bump();
            let rc = arena_op(envp, step, 0, &[], || b.alloc_layout(Layout::from_size_align(8, 1).unwrap()).as_ptr() as usize);
            if let Ok(a) = rc {
                let tag = 500 + self.canaries.len() as u32;
                for j in 0..8 {
                    unsafe { *((a + j) as *mut u8) = pat(tag, 0, j) };
                }
                let _g = Callback::enter();
                self.canaries.push((a, tag));
            }
            fa.a = VAct::ExtendIter { n: 2, hint: 0 };
        }
        let cap_before = self.bv.as_ref().unwrap().cap();
        let len_before = self.bv.as_ref().unwrap().sl().len();
        let base = self.labels.next;
        // ---- world 0: the arena-backed Vec
        if fa.fk != 0 {
            arm_fault(fa.fk, fa.fi as u32);
        }
        let mut l0 = Labels { next: base };
        let mut leaked0: Vec<u32> = Vec::new();
        ZWORLD.with(|w| w.set(0));
        let r0 = {
            let slot = &mut self.bv;
            let l = &mut l0;
            let lk = &mut leaked0;
            arena_op(envp, step, 0, &[], || apply::<E, V>(slot, 0, fa.a, l, lk))
        };
        let fault_fired = fa.fk != 0 && !disarm_fault();
        if fa.fk != 0 {
            let _ = disarm_fault();
        }
        if fault_fired || fa.fk != 0 {
            // fault mode: no reference run (std's leak behaviour after a panicking callback may legitimately differ)
            self.diverged = true;
            self.labels.next = l0.next.max(base) + 4;
            self.after_fault(what, fa, fault_fired, &r0);
            return;
        }
        // ---- world 1: std
        let mut l1 = Labels { next: base };
        let mut leaked1: Vec<u32> = Vec::new();
        ZWORLD.with(|w| w.set(1));
        let r1 = {
            let slot = &mut self.sv;
            let l = &mut l1;
            let lk = &mut leaked1;
            let _g = Callback::enter();
            crate::util::quiet(|| catch_unwind(AssertUnwindSafe(|| apply::<E, S>(slot, 1, fa.a, l, lk))).map_err(|p| classify_panic(&*p)))
        };
        ZWORLD.with(|w| w.set(0));
        self.labels.next = l0.next.max(l1.next);
        {
            let _g = Callback::enter();
            self.leaked_labels.extend(leaked0.iter());
        }
        let mut h = Hasher128::new();
        h.u(r0.is_ok() as u64);
        if !self.judge {
            return;
        }
        // ---- C13: same result, same panics
        match (&r0, &r1) {
            (Ok(a), Ok(b)) => {
                if a != b {
                    v(&mut self.viol, 13, "return_value_differs", format!("return_value_differs/{what}"), format!("{what} ({:?}): returned {:?}, std returned {:?}", fa.a, a.items(), b.items()));
                }
                for x in a.items() {
                    h.u(*x as u64);
                }
            }
            (Err(p), Ok(_)) => v(&mut self.viol, 13, "panics_where_std_does_not", format!("panics_where_std_does_not/{what}"), format!("{what} ({:?}) with len {len_before}: panicked ({:?}); std returned normally", fa.a, p)),
            (Ok(_), Err(p)) => v(&mut self.viol, 13, "no_panic_where_std_panics", format!("no_panic_where_std_panics/{what}"), format!("{what} ({:?}) with len {len_before}: returned normally; std panicked ({:?})", fa.a, short_panic(p))),
            (Err(_), Err(_)) => h.u(77),
        }
        if let Some(d) = self.contents_eq() {
            v(&mut self.viol, 13, "contents_differ", format!("contents_differ/{what}"), format!("{what} ({:?}): {d}", fa.a));
        }
        let (len, cap) = (self.bv.as_ref().unwrap().sl().len(), self.bv.as_ref().unwrap().cap());
        if cap < len {
            v(&mut self.viol, 13, "capacity_below_len", format!("capacity_below_len/{what}"), format!("{what}: capacity {cap} < len {len}"));
        }
        if r0.is_ok() {
            let promised = match fa.a {
                VAct::Reserve { i } | VAct::ReserveExact { i } => Some(len_before.saturating_add(ix(i, len_before))),
                VAct::TryReserve { i } | VAct::TryReserveExact { i } if r0.as_ref().unwrap().items() == [1] => Some(len_before.saturating_add(ix(i, len_before))),
                _ => None,
            };
            if let Some(p) = promised {
                if cap < p && std::mem::size_of::<E>() > 0 {
                    v(&mut self.viol, 13, "reserve_promise_broken", format!("reserve_promise_broken/{what}"), format!("{what}: capacity {cap} after reserving for {p} elements"));
                }
            }
        }
        let _ = cap_before;
        self.neighbours_ok(what);
        // ---- C15: drop ledgers agree with std, nothing reachable is dropped
        if E::TRACKED {
            let (d0, d1) = (dropped(0), dropped(1));
            if d0 != d1 {
                let extra: Vec<&u32> = d0.iter().filter(|x| !d1.contains(x)).take(4).collect();
                let missing: Vec<&u32> = d1.iter().filter(|x| !d0.contains(x)).take(4).collect();
                let kind = if first_double_drop(0).is_some() {
                    "double_drop"
                } else if !extra.is_empty() {
                    "dropped_too_early_or_wrongly"
                } else {
                    "not_dropped"
                };
                v(&mut self.viol, 15, "drops_differ_from_std", format!("drops_differ_from_std/{what}/{kind}"), format!("{what} ({:?}): destructor runs differ from std: extra {:?}, missing {:?}", fa.a, extra, missing));
            }
            for e in self.bv.as_ref().unwrap().sl() {
                if drop_count(0, e.label()) != 0 {
                    v(&mut self.viol, 15, "dropped_value_reachable", format!("dropped_value_reachable/{what}"), format!("{what}: element with label {} is still in the vector but its destructor has run", e.label()));
                    break;
                }
            }
        } else if std::any::TypeId::of::<E>() == std::any::TypeId::of::<Z>() {
            let z = zdrops();
            if z[0] != z[1] {
                v(&mut self.viol, 15, "drops_differ_from_std", format!("drops_differ_from_std/{what}/zst_count"), format!("{what} ({:?}): {} zero-sized values dropped, std dropped {}", fa.a, z[0], z[1]));
            }
        }
        h.u(len as u64);
        self.outcome = h.finish64();
    }

    /// C16 oracle after a (possibly) panicking callback.
    fn after_fault(&mut self, what: &'static str, fa: FAct, fired: bool, r0: &Result<Obs, PanicClass>) {
        if !self.judge {
            return;
        }
        let kind = fault_kind_name(fa.fk);
        if let Err(p) = r0 {
            if !matches!(p, PanicClass::Injected) {
                // the operation panicked for another reason (e.g. index out of range): not a fault case
                self.outcome = 3;
                return;
            }
        }
        self.outcome = if fired { 1 } else { 2 };
        if !fired {
            return;
        }
        if let Some(l) = first_double_drop(0) {
            v(&mut self.viol, 16, "double_drop", format!("double_drop/{what}/panic_in={kind}"), format!("{what} ({:?}): {kind} callback panicked at invocation {}; value with label {l} was dropped twice", fa.a, fa.fi));
            return;
        }
        if E::TRACKED {
            for e in self.bv.as_ref().unwrap().sl() {
                if drop_count(0, e.label()) != 0 {
                    v(&mut self.viol, 16, "dropped_value_reachable", format!("dropped_value_reachable/{what}/panic_in={kind}"), format!("{what} ({:?}): {kind} callback panicked at invocation {}; value with label {} is still reachable through the vector although its destructor has run (or it was moved out)", fa.a, fa.fi, e.label()));
                    return;
                }
            }
        }
        // follow-up: keep using the container, then drop it
        let envp = self.envp;
        let lab = self.labels.take();
        let bvm = self.bv.as_mut().unwrap();
        let r = arena_op(envp, self.step, 0, &[], || {
            bvm.v_push(E::mk(0, lab, 1));
            let s: usize = bvm.sl().iter().map(|e| e.val() as usize).sum();
            bvm.v_clear();
            s
        });
        if let Err(p) = r {
            v(&mut self.viol, 16, "container_unusable_after_panic", format!("container_unusable_after_panic/{what}/panic_in={kind}"), format!("{what}: using the vector after the caught panic panicked: {:?}", p));
        }
        if let Some(l) = first_double_drop(0) {
            v(&mut self.viol, 16, "double_drop", format!("double_drop/{what}/panic_in={kind}"), format!("{what} ({:?}): {kind} callback panicked at invocation {}; value with label {l} was dropped twice once the vector was cleared", fa.a, fa.fi));
            return;
        }
        let b = self.bump();
        let r = arena_op(envp, self.step, 0, &[], || b.alloc(0x55u64) as *mut u64 as usize);
        match r {
            Ok(a) if a % 8 == 0 && unsafe { (*envp).block_containing(0, a, 8).is_some() } => {}
            _ => v(&mut self.viol, 16, "arena_unusable_after_panic", format!("arena_unusable_after_panic/{what}"), format!("{what}: the arena could not serve an allocation after the caught panic")),
        }
    }

    fn key(&self) -> u128 {
        let mut h = Hasher128::new();
        let bv = self.bv.as_ref().unwrap();
        h.u(bv.sl().len() as u64);
        for e in bv.sl() {
            h.u(e.val() as u64);
        }
        h.u(bv.cap() as u64);
        let b = self.bump();
        h.u(b.chunk_capacity() as u64);
        h.u(b.allocated_bytes() as u64);
        let finger = unsafe { b.iter_allocated_chunks_raw().next().map(|c| c.0 as usize).unwrap_or(0) };
        h.u((bv.ptr() == finger && bv.cap() > 0) as u64);
        h.u(self.canaries.len().min(3) as u64);
        h.u(self.sib_v_ref.len() as u64);
        h.u(self.sib_v.as_ref().map_or(0, |s| s.capacity()) as u64);
        h.u(self.sib_v.as_ref().map_or(0, |s| (s.as_ptr() as usize == finger) as usize) as u64);
        h.u(self.sib_s_ref.len() as u64);
        h.u(self.sib_s.as_ref().map_or(0, |s| s.capacity()) as u64);
        h.u(self.boxes.len() as u64);
        h.u(self.diverged as u64);
        h.finish()
    }
}

pub fn fault_kind_name(k: u8) -> &'static str {
    match k {
        K_PRED => "predicate",
        K_CLONE => "clone",
        K_DROP => "drop",
        K_ITER => "iterator",
        K_EQ => "eq",
        K_KEY => "key",
        _ => "callback",
    }
}

fn short_panic(p: &PanicClass) -> String {
    format!("{:?}", p).chars().take(80).collect()
}

impl VecModel {
    fn run_e<E: Elem, V: VecLike<E>, S: VecLike<E>>(&self, w: &mut Worker, h: &Hist<VCfg, FAct>, want_enabled: bool) -> RunOut<FAct> {
        let envp: *mut ExecEnv = &mut *w.env;
        unsafe { (*envp).begin_execution() };
        reset_ledgers();
        zdrops_reset();
        if crate::util::static_dirty() {
            crate::util::restore_static();
        }
        let bump: *mut Bump = Box::into_raw(Box::new(arena_op(envp, 0, 0, &[], Bump::new).unwrap()));
        let bref: &'static Bump = unsafe { &*bump };
        let sc = h.cfg.start_cap as usize;
        let bv0: V = arena_op(envp, 0, 0, &[], || V::new_in_arena(bref, sc)).unwrap();
        let sv0: S = S::new_in_arena(bref, sc);
        let mut world: VWorld<E, V, S> = VWorld {
            envp, bump, bv: Some(bv0), sv: Some(sv0), labels: Labels { next: 0 }, sib_v: None, sib_v_ref: Vec::new(), sib_s: None, sib_s_ref: String::new(), boxes: Vec::new(), canaries: Vec::new(),
            viol: Vec::new(), judge: false, step: 0, outcome: 0, diverged: false, leaked_labels: Vec::new(), _p: PhantomData,
        };
        for k in 0..h.cfg.prefill_len {
            let val = (h.cfg.prefill_bits >> k) & 1;
            let lab = world.labels.take();
            let bvm = world.bv.as_mut().unwrap();
            let _ = arena_op(envp, 0, 0, &[], || bvm.v_push(E::mk(0, lab, val)));
            let _g = Callback::enter();
            world.sv.as_mut().unwrap().v_push(E::mk(1, lab, val));
        }
        let n = h.len as usize;
        for (i, s) in h.steps().iter().enumerate() {
            world.step = i as u32 + 1;
            world.judge = i + 1 == n;
            world.step(s.act);
            // Env-level damage is everybody's business
            let faults: Vec<crate::env::EnvFault> = unsafe { (*envp).faults.clone() };
            if world.judge {
                for f in faults {
                    v(&mut world.viol, 13, "allocator_misuse", format!("allocator_misuse/{}", act_name(&s.act.a)), format!("{:?}", f));
                }
                if let Some(a) = unsafe { (*envp).check_redzones() } {
                    v(&mut world.viol, 13, "write_outside_arena_memory", format!("write_outside_arena_memory/{}", act_name(&s.act.a)), format!("red zone at {:#x} overwritten", a));
                }
            }
            unsafe { (*envp).faults.clear() };
        }
        let cov = if self.mode == VMode::Faults && world.diverged && (1..=3).contains(&world.outcome) { 1u64 << (world.outcome - 1) } else { 0 };
        let phase: u128 = if self.mode == VMode::Faults { (n + 1 >= self.max_depth) as u128 } else { 0 };
        let mut out = RunOut { key: world.key() ^ phase.wrapping_mul(0x9e3779b97f4a7c15f39cc0605cedc835), enabled: Vec::new(), nreq_last: 0, terminal: world.diverged, violations: Vec::new(), cov, outcome: world.outcome };
        if want_enabled && !world.diverged {
            out.enabled = self.enabled::<E, V, S>(&world, n, h.cfg.container);
        }
        // ---- end of execution: drop containers, then the arena; ledgers must still agree
        let judge_end = true;
        let bvt = world.bv.take();
        ZWORLD.with(|w| w.set(0));
        let r = arena_op(envp, n as u32 + 1, 0, &[], move || drop(bvt));
        ZWORLD.with(|w| w.set(1));
        {
            let _g = Callback::enter();
            let svt = world.sv.take();
            let _ = catch_unwind(AssertUnwindSafe(move || drop(svt)));
        }
        ZWORLD.with(|w| w.set(0));
        if let Err(p) = r {
            if !matches!(p, PanicClass::Injected) {
                v(&mut world.viol, 15, "drop_panicked", "drop_panicked".into(), format!("dropping the vector panicked: {:?}", p));
            }
        }
        let nboxes = world.boxes.len();
        let sv_t = world.sib_v.take();
        let ss_t = world.sib_s.take();
        let bx_t: Vec<(BBox<'static, D>, u32)> = std::mem::take(&mut world.boxes);
        let _ = arena_op(envp, n as u32 + 2, 0, &[], move || {
            drop(sv_t);
            drop(ss_t);
            drop(bx_t);
        });
        if judge_end && !world.diverged {
            if E::TRACKED {
                let (mut d0, d1) = (dropped(0), dropped(1));
                d0.retain(|l| *l < 4_000_000_000);
                if d0 != d1 {
                    let kind = if first_double_drop(0).is_some() { "double_drop" } else { "at_container_drop" };
                    v(&mut world.viol, 15, "drops_differ_from_std", format!("drops_differ_from_std/drop/{kind}"), format!("after dropping the containers the destructor runs differ from std ({} vs {})", d0.len(), d1.len()));
                }
                for l in &world.leaked_labels {
                    if drop_count(0, *l) != 0 {
                        v(&mut world.viol, 15, "leaked_value_dropped", "leaked_value_dropped".into(), format!("value {l} was handed out by into_bump_slice / a forgotten iterator, yet its destructor ran"));
                        break;
                    }
                }
            }
        } else if world.diverged && E::TRACKED {
            if let Some(l) = first_double_drop(0) {
                if world.viol.is_empty() {
                    let last = h.steps().last().map(|s| s.act);
                    let what = last.map(|a| act_name(&a.a)).unwrap_or("?");
                    let kind = last.map(|a| fault_kind_name(a.fk)).unwrap_or("?");
                    v(&mut world.viol, 16, "double_drop", format!("double_drop/{what}/panic_in={kind}"), format!("{:?}: after the caught panic and dropping the vector, value with label {l} was dropped twice", last));
                }
            }
        }
        let before = dropped(0).len();
        // drop the arena inside the window; free the harness Box that held it outside
        let _ = arena_op(envp, n as u32 + 3, 0, &[], || unsafe { std::ptr::drop_in_place(bump) });
        drop(unsafe { Box::from_raw(bump as *mut std::mem::ManuallyDrop<Bump>) });
        if dropped(0).len() != before + 0 && nboxes == 0 {
            v(&mut world.viol, 15, "arena_drop_ran_destructors", "arena_drop_ran_destructors".into(), "dropping the arena ran element destructors".into());
        }
        if unsafe { (*envp).live_count(0) } != 0 {
            v(&mut world.viol, 3, "leak_after_drop", "leak_after_drop/coll".into(), "arena memory still held after drop".into());
        }
        out.violations = std::mem::take(&mut world.viol);
        if h.cfg.container == 1 {
            // std collections parameterised by the arena: this is the Allocator contract's business
            for x in out.violations.iter_mut() {
                if matches!(x.prop, 13 | 15) {
                    x.prop = 12;
                }
            }
        }
        out
    }

    fn enabled<E: Elem, V: VecLike<E>, S: VecLike<E>>(&self, w: &VWorld<E, V, S>, depth: usize, container: u8) -> Vec<FAct> {
        let mut acts: Vec<VAct> = Vec::with_capacity(1500);
        let n = w.bv.as_ref().unwrap().sl().len();
        let l = self.max_len;
        let t = self.thorough;
        let room = l.saturating_sub(n);
        let codes: &[u8] = if t { &[0, 1, 2, 3, 4, 5] } else { &[0, 1, 3, 4, 5] };
        if room > 0 {
            acts.push(VAct::Push { val: 0 });
            acts.push(VAct::Push { val: 1 });
            for &i in &[0u8, 1, 3, 4, 5] {
                acts.push(VAct::Insert { i, val: 1 });
            }
        }
        acts.push(VAct::Pop);
        for &i in &[0u8, 1, 2, 3, 5] {
            acts.push(VAct::Remove { i });
            acts.push(VAct::SwapRemove { i });
            acts.push(VAct::Index { i });
        }
        for &i in &[0u8, 1, 3, 4] {
            acts.push(VAct::Truncate { i });
            acts.push(VAct::SplitOff { i });
        }
        acts.push(VAct::Clear);
        for &(i, need) in &[(0u8, 0usize), (1, 0), (3, 0), (4, 1), (7, 3)] {
            if need <= room {
                acts.push(VAct::Resize { i, val: 1 });
                acts.push(VAct::Resize { i, val: 0 });
            }
        }
        for k in [0u8, 1, 3] {
            if (k as usize) <= room {
                for hint in 0..3u8 {
                    acts.push(VAct::ExtendIter { n: k, hint });
                }
            }
        }
        if l >= 20 && n == 0 {
            // "long" jobs: the next operations see 9 / 17 elements (all index codes are relative to the length)
            acts.push(VAct::ExtendIter { n: 9, hint: 0 });
            acts.push(VAct::ExtendIter { n: 17, hint: 1 });
            if l >= 260 {
                // "scale" jobs: buffers larger than the chunk they started in (64 and 200 elements)
                acts.push(VAct::ExtendIter { n: 64, hint: 0 });
                acts.push(VAct::ExtendIter { n: 200, hint: 2 });
            }
        }
        for k in [0u8, 2] {
            if (k as usize) <= room {
                acts.push(VAct::ExtendFromSlice { n: k });
                acts.push(VAct::Append { n: k });
                if E::COPY {
                    acts.push(VAct::ExtendCopy { n: k });
                    acts.push(VAct::ExtendRefs { n: k });
                    acts.push(VAct::WriteIo { n: k, all: false });
                    acts.push(VAct::WriteIo { n: k, all: true });
                }
            }
        }
        if l >= 20 && room >= 2 {
            acts.push(VAct::Append { n: 102 });
            acts.push(VAct::Append { n: 100 });
        }
        if E::COPY {
            acts.push(VAct::ExtendCopies { a: 0, b: 0 });
            if room >= 3 {
                acts.push(VAct::ExtendCopies { a: 1, b: 2 });
            }
        }
        // every RangeBounds form over the index codes
        let modes: &[u8] = if t { &[0, 1, 2, 3, 4] } else { &[0, 2, 3, 4] };
        for sb in 0..3u8 {
            for &si in if sb == 0 { &[0u8][..] } else { codes } {
                for eb in 0..3u8 {
                    for &ei in if eb == 0 { &[0u8][..] } else { codes } {
                        let r = Rg { sb, si, eb, ei };
                        for &mode in modes {
                            acts.push(VAct::Drain { r, mode });
                        }
                    }
                }
            }
        }
        let scodes: &[u8] = if t { &[0, 1, 3, 4, 5] } else { &[0, 1, 3, 5] };
        for sb in 0..3u8 {
            for &si in if sb == 0 { &[0u8][..] } else { scodes } {
                for eb in 0..3u8 {
                    for &ei in if eb == 0 { &[0u8][..] } else { scodes } {
                        let r = Rg { sb, si, eb, ei };
                        for k in [0u8, 1, 3] {
                            if (k as usize) > room {
                                continue;
                            }
                            for hint in [0u8, 1, 2] {
                                for mode in [0u8, 2, 3] {
                                    acts.push(VAct::Splice { r, n: k, hint, mode });
                                }
                            }
                        }
                    }
                }
            }
        }
        for p in 0..5u8 {
            acts.push(VAct::Retain { p });
            for mode in 0..3u8 {
                acts.push(VAct::DrainFilter { p, mode });
            }
        }
        if E::COPY && self.mode == VMode::Diff {
            // a predicate that panics after some elements were removed / kept: same contents as std afterwards
            for p in [7u8, 8, 9] {
                acts.push(VAct::Retain { p });
                for mode in [0u8, 2] {
                    acts.push(VAct::DrainFilter { p, mode });
                }
            }
        }
        acts.push(VAct::Dedup);
        for p in [0u8, 1, 4, 5, 6] {
            acts.push(VAct::DedupBy { p });
        }
        acts.push(VAct::DedupByKey { p: 0 });
        acts.push(VAct::DedupByKey { p: 1 });
        for &i in &[0u8, 6, 7, 5] {
            acts.push(VAct::Reserve { i });
            acts.push(VAct::ReserveExact { i });
            acts.push(VAct::TryReserve { i });
            acts.push(VAct::TryReserveExact { i });
        }
        if std::mem::size_of::<E>() > 0 && container != 2 && room >= 2 {
            acts.push(VAct::TryReserveRefused { exact: false });
            acts.push(VAct::TryReserveRefused { exact: true });
        }
        acts.push(VAct::ShrinkToFit);
        acts.push(VAct::CloneCmp);
        for k in 0..3u8 {
            acts.push(VAct::Inspect { k });
        }
        for k in 0..9u8 {
            acts.push(VAct::IntoIterX { k });
        }
        for (f, b) in [(0u8, 0u8), (1, 0), (0, 1), (1, 1), (200, 0)] {
            acts.push(VAct::IntoIter { front: f, back: b, forget: false });
            acts.push(VAct::IntoIter { front: f, back: b, forget: true });
        }
        acts.push(VAct::IntoBumpSlice { mutable: false });
        acts.push(VAct::IntoBumpSlice { mutable: true });
        acts.push(VAct::IntoBoxed);
        acts.push(VAct::SetLenDropAll);
        for k in [0u8, 3] {
            if k as usize <= l {
                for hint in 0..3u8 {
                    acts.push(VAct::FromIterIn { n: k, hint });
                }
            }
        }
        acts.push(VAct::CollectIn { n: 2.min(l as u8) });
        if l >= 3 && container == 0 {
            for how in [2u8, 3, 4, 5] {
                acts.push(VAct::CollectIn { n: 100 + (how - 2) * 50 });
            }
        }
        for k in [0u8, 1, 3] {
            if k as usize <= l {
                acts.push(VAct::VecMacro { n: k, repeat: false });
                acts.push(VAct::VecMacro { n: k, repeat: true });
            }
        }
        acts.push(VAct::WithCap { n: 0 });
        acts.push(VAct::WithCap { n: 5 });
        if w.canaries.len() < 2 {
            acts.push(VAct::Canary);
        }
        if w.sib_v_ref.len() < 3 {
            acts.push(VAct::SibPush);
        }
        if w.sib_s_ref.len() < 10 {
            acts.push(VAct::SibStr);
        }
        if w.boxes.len() < 1 {
            acts.push(VAct::SibBox);
        }
        if container == 1 {
            // allocator_api2's Vec: only what that type offers
            acts.retain(|a| !matches!(a, VAct::DrainFilter { .. } | VAct::ExtendCopy { .. } | VAct::ExtendCopies { .. } | VAct::WriteIo { .. } | VAct::CollectIn { .. }));
        }
        let last = depth + 1 >= self.max_depth;
        match self.mode {
            VMode::Diff => acts.into_iter().map(|a| FAct { a, fk: 0, fi: 0 }).collect(),
            VMode::Faults => {
                let mut out: Vec<FAct> = Vec::new();
                if !last {
                    // prefix: fault-free state-building actions (a reduced alphabet keeps the prefix space small)
                    for a in acts.iter() {
                        let keep = matches!(a, VAct::Push { .. } | VAct::Pop | VAct::Remove { i: 0 } | VAct::SwapRemove { i: 0 } | VAct::Truncate { i: 1 } | VAct::Reserve { i: 7 } | VAct::ShrinkToFit | VAct::Canary | VAct::Insert { i: 1, .. } | VAct::Dedup);
                        if keep {
                            out.push(FAct { a: *a, fk: 0, fi: 0 });
                        }
                    }
                }
                let kmax: u8 = (2 * l as u8 + 4).min(16);
                for a in acts.iter() {
                    let kinds: &[u8] = match a {
                        VAct::Retain { .. } | VAct::DrainFilter { .. } | VAct::DedupBy { .. } => &[K_PRED, K_DROP],
                        VAct::DedupByKey { .. } => &[K_KEY, K_DROP],
                        VAct::Dedup => &[K_EQ, K_DROP],
                        VAct::Resize { .. } => &[K_CLONE, K_DROP],
                        VAct::ExtendFromSlice { .. } | VAct::CloneCmp | VAct::VecMacro { repeat: true, .. } => &[K_CLONE],
                        VAct::ExtendIter { .. } | VAct::FromIterIn { .. } | VAct::CollectIn { .. } => &[K_ITER],
                        VAct::Splice { .. } => &[K_ITER, K_DROP],
                        VAct::Truncate { .. } | VAct::Clear | VAct::SetLenDropAll | VAct::IntoBoxed | VAct::Pop => &[K_DROP],
                        VAct::IntoIter { forget: false, .. } => &[K_DROP],
                        VAct::Drain { mode, .. } if *mode != 4 => &[K_DROP],
                        VAct::Append { .. } | VAct::SplitOff { .. } => &[K_DROP],
                        _ => &[],
                    };
                    // thin the range forms for fault runs: the panic point matters, not every bound form
                    if let VAct::Drain { r, .. } | VAct::Splice { r, .. } = a {
                        if !(r.sb <= 1 && r.eb != 1 && matches!(r.si, 0 | 1) && matches!(r.ei, 0 | 3 | 1)) {
                            continue;
                        }
                    }
                    for &fk in kinds {
                        for fi in 0..kmax {
                            out.push(FAct { a: *a, fk, fi });
                        }
                    }
                }
                out
            }
        }
    }
}

impl Model for VecModel {
    type Cfg = VCfg;
    type Act = FAct;
    fn configs(&self) -> Vec<VCfg> {
        match self.mode {
            VMode::Diff => {
                let c = self.container;
                let mk = |elem, start_cap| VCfg { elem, container: c, start_cap, prefill_len: 0, prefill_bits: 0 };
                vec![mk(0, 0), mk(1, 0), mk(2, 0), mk(0, 3), mk(1, 3)]
            }
            VMode::Faults => {
                // every value pattern up to the length bound, with exact and spare capacity
                let mut v = Vec::new();
                for len in 0..=self.max_len as u8 {
                    for bits in 0..(1u16 << len) {
                        for start_cap in [0u8, 9] {
                            v.push(VCfg { elem: 0, container: self.container, start_cap, prefill_len: len, prefill_bits: bits as u8 });
                        }
                    }
                }
                v
            }
        }
    }
    fn run(&self, w: &mut Worker, h: &Hist<VCfg, FAct>, want_enabled: bool) -> RunOut<FAct> {
        match (h.cfg.container, h.cfg.elem) {
            (0, 0) => self.run_e::<D, BVec<'static, D>, Vec<D>>(w, h, want_enabled),
            (0, 1) => self.run_e::<u8, BVec<'static, u8>, Vec<u8>>(w, h, want_enabled),
            (0, _) => self.run_e::<Z, BVec<'static, Z>, Vec<Z>>(w, h, want_enabled),
            (_, 0) => self.run_e::<D, AVec<D>, GVec<D>>(w, h, want_enabled),
            (_, 1) => self.run_e::<u8, AVec<u8>, GVec<u8>>(w, h, want_enabled),
            (_, _) => self.run_e::<Z, AVec<Z>, GVec<Z>>(w, h, want_enabled),
        }
    }
    fn cov_names(&self) -> &'static [&'static str] {
        &["fault_fired", "fault_not_reached", "op_panicked_for_another_reason"]
    }
    fn alt_answers(&self) -> Vec<crate::env::Answer> {
        vec![]
    }
    fn describe(&self, h: &Hist<VCfg, FAct>) -> serde_json::Value {
        let steps: Vec<String> = h.steps().iter().map(|s| if s.act.fk == 0 { format!("{:?}", s.act.a) } else { format!("{:?} with the {} callback panicking at its invocation #{}", s.act.a, fault_kind_name(s.act.fk), s.act.fi) }).collect();
        let en = ["D (drop-tracked)", "u8", "Z (zero-sized, droppable)"][h.cfg.elem as usize];
        let init: Vec<u8> = (0..h.cfg.prefill_len).map(|k| (h.cfg.prefill_bits >> k) & 1).collect();
        serde_json::json!({"container": if h.cfg.container == 0 { "bumpalo::collections::Vec" } else { "allocator_api2::vec::Vec<_, &Bump>" }, "element": en, "initial_capacity": h.cfg.start_cap, "initial_values": init, "steps": steps})
    }
}
