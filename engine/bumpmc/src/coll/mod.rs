//! Collections models: arena-backed Vec / String / Box against std (C13–C17).
pub mod elem;
pub mod veclike;
pub mod vecmodel;
pub mod strmodel;
