//! Differential explicit-state search: `bumpalo::collections::String` against `std::string::String`
//! over text mixing 1–4 byte characters, every byte index and range form (C14); plus the
//! panicking-predicate cases of C16 (`retain`, `extend`).

use super::elem::{arm_fault, disarm_fault, reset_ledgers, tick, K_ITER, K_PRED};
use super::veclike::{bounds as _unused_bounds, Obs};
use crate::env::{Callback, ExecEnv};
use crate::mc::{Hist, Model, RunOut, Violation, Worker};
use crate::util::{arena_op, classify_panic, Hasher128, PanicClass};
use bumpalo::collections::String as BString;
use bumpalo::collections::Vec as BVec;
use bumpalo::Bump;
use std::ops::Bound;
use std::panic::{catch_unwind, AssertUnwindSafe};

pub const CH: [char; 4] = ['a', 'é', '€', '😀'];
pub const POOL: [&str; 6] = ["", "a", "é", "€😀", "b€", "😀é"];

#[derive(Clone, Copy, Debug, PartialEq, Eq, Hash)]
#[repr(C)]
pub struct SRg {
    pub sb: u8,
    pub si: u8,
    pub eb: u8,
    pub ei: u8,
}

fn bidx(c: u8) -> usize {
    if c == 255 {
        usize::MAX
    } else {
        c as usize
    }
}
fn sbounds(r: SRg) -> (Bound<usize>, Bound<usize>) {
    let b = |k: u8, c: u8| match k {
        0 => Bound::Unbounded,
        1 => Bound::Included(bidx(c)),
        _ => Bound::Excluded(bidx(c)),
    };
    (b(r.sb, r.si), b(r.eb, r.ei))
}

#[derive(Clone, Copy, Debug, PartialEq, Eq, Hash)]
#[repr(C)]
pub enum SAct {
    Nop,
    Push { c: u8 },
    PushStr { s: u8 },
    Pop,
    Insert { i: u8, c: u8 },
    InsertStr { i: u8, s: u8 },
    Remove { i: u8 },
    Truncate { i: u8 },
    Clear,
    Retain { p: u8 },
    Drain { r: SRg, mode: u8 },
    ReplaceRange { r: SRg, s: u8 },
    SplitOff { i: u8 },
    ExtendChars { s: u8 },
    ExtendStrs { s: u8 },
    CloneCmp,
    Format { s: u8 },
    WriteFmt { s: u8 },
    IntoBumpStr,
    FromStrIn { s: u8 },
    FromIterIn { s: u8 },
    Reserve { k: u8 },
    ReserveExact { k: u8 },
    ShrinkToFit,
    BytesRoundTrip,
    Slice { r: SRg },
    AddStr { s: u8 },
    IsCharBoundary { i: u8 },
    /// the String's own trait surface (not the str it derefs to): see `inspect_str`
    Inspect { k: u8 },
    Canary,
}

#[derive(Clone, Copy, Debug, PartialEq, Eq, Hash)]
#[repr(C)]
pub struct SFAct {
    pub a: SAct,
    pub fk: u8,
    pub fi: u8,
}

#[derive(Clone, Copy, Debug)]
#[repr(C)]
pub struct SCfg {
    pub start_cap: u8,
    /// initial text: up to 4 characters, 2 bits each (index into CH), `init_len` of them
    pub init_len: u8,
    pub init_bits: u8,
}

#[derive(Clone, Copy, Debug, PartialEq, Eq)]
pub enum SMode {
    Diff,
    Faults,
}

pub struct StrModel {
    pub mode: SMode,
    pub thorough: bool,
    pub max_chars: usize,
    pub max_depth: usize,
}

pub trait StrLike: Sized {
    fn fresh(&self) -> Self;
    fn from_str_like(&self, s: &str) -> Self;
    fn from_chars_like(&self, s: &str) -> Self;
    fn format_like(&self, a: &str, n: usize) -> Self;
    fn st(&self) -> &str;
    fn cap(&self) -> usize;
    fn ptr(&self) -> usize;
    fn s_push(&mut self, c: char);
    fn s_push_str(&mut self, s: &str);
    fn s_pop(&mut self) -> Option<char>;
    fn s_insert(&mut self, i: usize, c: char);
    fn s_insert_str(&mut self, i: usize, s: &str);
    fn s_remove(&mut self, i: usize) -> char;
    fn s_truncate(&mut self, i: usize);
    fn s_clear(&mut self);
    fn s_retain(&mut self, f: &mut dyn FnMut(char) -> bool);
    fn s_drain(&mut self, r: (Bound<usize>, Bound<usize>), mode: u8, obs: &mut Obs);
    fn s_replace_range(&mut self, r: (Bound<usize>, Bound<usize>), s: &str);
    fn s_split_off(&mut self, i: usize) -> Self;
    fn s_extend_chars(&mut self, s: &str, world: u8);
    fn s_extend_strs(&mut self, s: &str);
    fn s_clone(&self) -> Self;
    fn s_write_fmt(&mut self, a: &str, n: usize);
    fn s_leak(self) -> &'static str;
    fn s_reserve(&mut self, k: usize);
    fn s_reserve_exact(&mut self, k: usize);
    fn s_shrink(&mut self);
    fn s_bytes_roundtrip(self) -> Self;
    fn s_add(self, s: &str) -> Self;
    fn s_inspect(&mut self, other: &Self, k: u8, pool: &str, obs: &mut Obs);
    fn s_as_mut_str(&mut self) -> &mut str;
    /// take the string apart into (ptr, len, capacity) and rebuild it with the container's from_raw_parts
    fn s_raw_roundtrip(self) -> Self;
    /// Display text of the container's UTF-16 decoding error for a lone surrogate
    fn s_utf16_err(&self, obs: &mut Obs);
    /// (valid_up_to, error text, bytes handed back) of the container's from_utf8 on invalid input
    fn s_from_utf8_err(&self, bytes: &[u8], obs: &mut Obs);
}

struct TickChars<'a> {
    it: std::str::Chars<'a>,
    world: u8,
}
impl<'a> Iterator for TickChars<'a> {
    type Item = char;
    fn next(&mut self) -> Option<char> {
        tick(K_ITER, self.world);
        self.it.next()
    }
}

macro_rules! impl_strlike {
    ($ty:ty, $fresh:expr, $fromstr:expr, $fromchars:expr, $format:expr, $leak:expr, $roundtrip:expr, $utf8err:expr, $raw:expr, $utf16err:expr) => {
        impl StrLike for $ty {
            fn fresh(&self) -> Self {
                $fresh(self)
            }
            fn from_str_like(&self, s: &str) -> Self {
                $fromstr(self, s)
            }
            fn from_chars_like(&self, s: &str) -> Self {
                $fromchars(self, s)
            }
            fn format_like(&self, a: &str, n: usize) -> Self {
                $format(self, a, n)
            }
            fn st(&self) -> &str {
                self.as_str()
            }
            fn cap(&self) -> usize {
                self.capacity()
            }
            fn ptr(&self) -> usize {
                self.as_ptr() as usize
            }
            fn s_push(&mut self, c: char) {
                self.push(c)
            }
            fn s_push_str(&mut self, s: &str) {
                self.push_str(s)
            }
            fn s_pop(&mut self) -> Option<char> {
                self.pop()
            }
            fn s_insert(&mut self, i: usize, c: char) {
                self.insert(i, c)
            }
            fn s_insert_str(&mut self, i: usize, s: &str) {
                self.insert_str(i, s)
            }
            fn s_remove(&mut self, i: usize) -> char {
                self.remove(i)
            }
            fn s_truncate(&mut self, i: usize) {
                self.truncate(i)
            }
            fn s_clear(&mut self) {
                self.clear()
            }
            fn s_retain(&mut self, f: &mut dyn FnMut(char) -> bool) {
                self.retain(|c| f(c))
            }
            fn s_drain(&mut self, r: (Bound<usize>, Bound<usize>), mode: u8, obs: &mut Obs) {
                let mut d = self.drain(r);
                {
                    let (lo, hi) = d.size_hint();
                    obs.n(lo as i64 * 1000 + hi.map_or(999, |x| x as i64));
                    // Debug of the drain is exercised but its text is not part of the contract (std's shows the
                    // remaining text, the fork prints a placeholder)
                    let _g = Callback::enter();
                    let t = format!("{:?}", d);
                    obs.n(t.is_empty() as i64);
                }
                match mode {
                    0 => {}
                    1 => {
                        if let Some(c) = d.next() {
                            obs.n(c as i64);
                        }
                        if let Some(c) = d.next_back() {
                            obs.n(c as i64);
                        }
                    }
                    2 => {
                        for c in d.by_ref() {
                            obs.n(c as i64);
                        }
                    }
                    _ => {
                        std::mem::forget(d);
                        return;
                    }
                }
                drop(d);
            }
            fn s_replace_range(&mut self, r: (Bound<usize>, Bound<usize>), s: &str) {
                self.replace_range(r, s)
            }
            fn s_split_off(&mut self, i: usize) -> Self {
                self.split_off(i)
            }
            fn s_extend_chars(&mut self, s: &str, world: u8) {
                self.extend(TickChars { it: s.chars(), world })
            }
            fn s_extend_strs(&mut self, s: &str) {
                self.extend([s, "a", s].iter().copied())
            }
            fn s_clone(&self) -> Self {
                self.clone()
            }
            fn s_write_fmt(&mut self, a: &str, n: usize) {
                use std::fmt::Write;
                write!(self, "{}:{}|{:>4}", a, n, a).unwrap();
            }
            fn s_leak(self) -> &'static str {
                $leak(self)
            }
            fn s_reserve(&mut self, k: usize) {
                self.reserve(k)
            }
            fn s_reserve_exact(&mut self, k: usize) {
                self.reserve_exact(k)
            }
            fn s_shrink(&mut self) {
                self.shrink_to_fit()
            }
            fn s_bytes_roundtrip(self) -> Self {
                $roundtrip(self)
            }
            fn s_inspect(&mut self, other: &Self, k: u8, pool: &str, obs: &mut Obs) {
                let me: Self = self.s_clone();
                let same: Self = self.s_clone();
                inspect_str::<Self>(self, other, me, same, k, pool, obs);
            }
            fn s_from_utf8_err(&self, bytes: &[u8], obs: &mut Obs) {
                $utf8err(self, bytes, obs)
            }
            fn s_as_mut_str(&mut self) -> &mut str {
                self.as_mut_str()
            }
            fn s_raw_roundtrip(self) -> Self {
                $raw(self)
            }
            fn s_utf16_err(&self, obs: &mut Obs) {
                $utf16err(self, obs)
            }
            fn s_add(self, s: &str) -> Self {
                self + s
            }
        }
    };
}

fn sb(s: &BString<'static>) -> &'static Bump {
    s.bump()
}

impl_strlike!(
    BString<'static>,
    |s: &BString<'static>| BString::new_in(sb(s)),
    |s: &BString<'static>, t: &str| BString::from_str_in(t, sb(s)),
    |s: &BString<'static>, t: &str| {
        // both spellings: String::from_iter_in and FromIteratorIn for String through collect_in
        use bumpalo::collections::CollectIn;
        if t.len() % 2 == 0 { BString::from_iter_in(t.chars(), sb(s)) } else { t.chars().collect_in::<BString<'static>>(sb(s)) }
    },
    |s: &BString<'static>, a: &str, n: usize| {
        let b = sb(s);
        bumpalo::format!(in b, "{}:{}|{:>4}", a, n, a)
    },
    |s: BString<'static>| -> &'static str { s.into_bump_str() },
    |s: BString<'static>| -> BString<'static> {
        let v = s.into_bytes();
        BString::from_utf8(v).expect("valid text round-trips")
    },
    |s: &BString<'static>, bytes: &[u8], obs: &mut Obs| {
        let mut v = BVec::new_in(sb(s));
        v.extend_from_slice(bytes);
        match BString::from_utf8(v) {
            Ok(t) => obs.n(1000 + t.len() as i64),
            Err(e) => {
                obs.n(e.utf8_error().valid_up_to() as i64);
                obs.n(e.utf8_error().error_len().map_or(-1, |x| x as i64));
                obs.n(e.as_bytes().len() as i64);
                {
                    // harness formatting: not arena traffic
                    let _g = Callback::enter();
                    let t = format!("{}|{:?}", e, e.utf8_error());
                    obs.n(t.bytes().fold(7i64, |a, c| (a * 31 + c as i64) % 1_000_003));
                }
                let back = e.into_bytes();
                obs.n(back.len() as i64);
                for b in back.iter() {
                    obs.n(*b as i64);
                }
            }
        }
    },
    |s: BString<'static>| -> BString<'static> {
        let mut m = std::mem::ManuallyDrop::new(s);
        let (p, l, c, b) = (m.as_mut_ptr(), m.len(), m.capacity(), sb(&m));
        unsafe { BString::from_raw_parts_in(p, l, c, b) }
    },
    |s: &BString<'static>, obs: &mut Obs| {
        match BString::from_utf16_in(&[0x61, 0xD800, 0x62], sb(s)) {
            Ok(_) => obs.n(-1),
            Err(e) => {
                let _g = Callback::enter();
                let t = format!("{}", e);
                obs.n(fold_str(&t));
            }
        }
    }
);

impl_strlike!(
    String,
    |_s: &String| String::new(),
    |_s: &String, t: &str| String::from(t),
    |_s: &String, t: &str| t.chars().collect::<String>(),
    |_s: &String, a: &str, n: usize| format!("{}:{}|{:>4}", a, n, a),
    |s: String| -> &'static str { s.leak() },
    |s: String| -> String {
        let v = s.into_bytes();
        String::from_utf8(v).expect("valid text round-trips")
    },
    |_s: &String, bytes: &[u8], obs: &mut Obs| {
        match String::from_utf8(bytes.to_vec()) {
            Ok(t) => obs.n(1000 + t.len() as i64),
            Err(e) => {
                obs.n(e.utf8_error().valid_up_to() as i64);
                obs.n(e.utf8_error().error_len().map_or(-1, |x| x as i64));
                obs.n(e.as_bytes().len() as i64);
                let t = format!("{}|{:?}", e, e.utf8_error());
                obs.n(t.bytes().fold(7i64, |a, c| (a * 31 + c as i64) % 1_000_003));
                let back = e.into_bytes();
                obs.n(back.len() as i64);
                for b in back.iter() {
                    obs.n(*b as i64);
                }
            }
        }
    },
    |s: String| -> String {
        let mut m = std::mem::ManuallyDrop::new(s);
        let (p, l, c) = (m.as_mut_ptr(), m.len(), m.capacity());
        unsafe { String::from_raw_parts(p, l, c) }
    },
    |_s: &String, obs: &mut Obs| {
        match String::from_utf16(&[0x61, 0xD800, 0x62]) {
            Ok(_) => obs.n(-1),
            Err(e) => {
                let t = format!("{}", e);
                obs.n(fold_str(&t));
            }
        }
    }
);

fn fold_str(t: &str) -> i64 {
    t.bytes().fold(t.len() as i64 + 7, |a, c| (a * 31 + c as i64) % 1_000_003)
}

fn ocode(o: Option<std::cmp::Ordering>) -> i64 {
    match o {
        None => 9,
        Some(std::cmp::Ordering::Less) => 1,
        Some(std::cmp::Ordering::Equal) => 2,
        Some(std::cmp::Ordering::Greater) => 3,
    }
}

/// The string type's own trait impls (everything that does not simply go through `Deref<Target = str>`).
/// `me`/`same` are clones of `s` (consumed by the `Extend<Self>` and `clone_from` cases).
#[allow(clippy::too_many_arguments)]
fn inspect_str<S>(s: &mut S, other: &S, me: S, same: S, k: u8, pool: &str, obs: &mut Obs)
where
    S: StrLike + std::fmt::Display + std::fmt::Debug + std::hash::Hash + PartialEq + PartialEq<str> + for<'x> PartialEq<&'x str> + for<'x> PartialEq<std::borrow::Cow<'x, str>> + PartialOrd + Ord + Clone,
    S: AsRef<str> + AsRef<[u8]> + std::borrow::Borrow<str> + std::borrow::BorrowMut<str> + std::ops::DerefMut<Target = str>,
    S: std::ops::Index<std::ops::Range<usize>, Output = str> + std::ops::Index<std::ops::RangeTo<usize>, Output = str> + std::ops::Index<std::ops::RangeFrom<usize>, Output = str> + std::ops::Index<std::ops::RangeFull, Output = str> + std::ops::Index<std::ops::RangeInclusive<usize>, Output = str> + std::ops::Index<std::ops::RangeToInclusive<usize>, Output = str>,
    S: std::ops::IndexMut<std::ops::Range<usize>> + std::ops::IndexMut<std::ops::RangeTo<usize>> + std::ops::IndexMut<std::ops::RangeFrom<usize>> + std::ops::IndexMut<std::ops::RangeFull> + std::ops::IndexMut<std::ops::RangeInclusive<usize>> + std::ops::IndexMut<std::ops::RangeToInclusive<usize>>,
    S: for<'x> Extend<&'x char> + Extend<S> + Extend<String> + for<'x> Extend<std::borrow::Cow<'x, str>> + for<'x> Extend<&'x str> + for<'x> std::ops::AddAssign<&'x str>,
    str: PartialEq<S>,
    for<'x> &'x str: PartialEq<S>,
    for<'x> std::borrow::Cow<'x, str>: PartialEq<S>,
{
    use std::hash::{Hash, Hasher};
    let len = s.st().len();
    // char boundaries to slice at
    let b1 = s.st().char_indices().nth(1).map_or(len, |x| x.0);
    match k {
        0 => {
            let _g = Callback::enter();
            let t = format!("{}|{:>9}|{:<9}|{:^9}|{:.2}|{:*>7.1}|{:?}|{:#?}|{:>12?}", s, s, s, s, s, s, s, s, s);
            obs.n(fold_str(&t));
            let mut h1 = std::collections::hash_map::DefaultHasher::new();
            Hash::hash(&*s, &mut h1);
            let mut h2 = std::collections::hash_map::DefaultHasher::new();
            Hash::hash(s.st(), &mut h2);
            obs.n((h1.finish() == h2.finish()) as i64);
        }
        1 => {
            let o: &str = other.st();
            let cow_b: std::borrow::Cow<str> = std::borrow::Cow::Borrowed(o);
            let _g = Callback::enter();
            let cow_o: std::borrow::Cow<str> = std::borrow::Cow::Owned(o.to_string());
            let bits = [*s == *other, *s != *other, *s == *o, *s == o, *o == *s, o == *s, *s == cow_b, cow_b == *s, *s == cow_o, cow_o == *s, *s == same, *s == *s.st(), *s.st() == *s, *s < *other, *s <= *other, *s > *other, *s >= *other];
            obs.n(bits.iter().fold(0i64, |a, b| a * 2 + *b as i64));
            obs.n(ocode(PartialOrd::partial_cmp(&*s, other)));
            obs.n(ocode(Some(Ord::cmp(&*s, other))));
            obs.n(ocode(Some(Ord::cmp(other, &*s))));
        }
        2 => {
            let a: &str = AsRef::<str>::as_ref(&*s);
            obs.n(fold_str(a));
            let b: &[u8] = AsRef::<[u8]>::as_ref(&*s);
            obs.n(b.len() as i64);
            let c: &str = std::borrow::Borrow::<str>::borrow(&*s);
            obs.n(fold_str(c));
            {
                let m: &mut str = std::borrow::BorrowMut::<str>::borrow_mut(s);
                m.make_ascii_uppercase();
            }
            obs.n(fold_str(s.st()));
            {
                let m: &mut str = &mut **s;
                m.make_ascii_lowercase();
            }
            obs.n(fold_str(s.st()));
            s.s_as_mut_str().make_ascii_uppercase();
            obs.n(fold_str(s.st()));
        }
        3 => {
            obs.n(fold_str(&s[b1..len]) * 7 + fold_str(&s[..b1]) * 5 + fold_str(&s[b1..]) * 3 + fold_str(&s[..]));
            if b1 > 0 {
                obs.n(fold_str(&s[0..=b1 - 1]) * 3 + fold_str(&s[..=b1 - 1]));
            }
            s[b1..len].make_ascii_uppercase();
            obs.n(fold_str(s.st()));
            s[..b1].make_ascii_uppercase();
            s[b1..].make_ascii_lowercase();
            obs.n(fold_str(s.st()));
            s[..].make_ascii_uppercase();
            if b1 > 0 {
                s[0..=b1 - 1].make_ascii_lowercase();
                s[..=b1 - 1].make_ascii_uppercase();
            }
            obs.n(fold_str(s.st()));
        }
        4 => {
            let chars: Vec<char> = { let _g = Callback::enter(); pool.chars().collect() };
            s.extend(chars.iter());
            obs.n(fold_str(s.st()));
            {
                let _g = Callback::enter();
                drop(chars);
            }
        }
        5 => {
            s.extend(std::iter::once(me));
            obs.n(fold_str(s.st()));
            let owned: Vec<String> = { let _g = Callback::enter(); vec![pool.to_string(), String::new(), pool.to_string()] };
            // the callee drops the std Strings (and the Vec's buffer) it is given
            let _gifts = crate::env::Gifts::enter();
            s.extend(owned);
            obs.n(fold_str(s.st()));
            return;
        }
        6 => {
            let cows: Vec<std::borrow::Cow<str>> = { let _g = Callback::enter(); vec![std::borrow::Cow::Borrowed(pool), std::borrow::Cow::Owned(pool.to_string())] };
            let _gifts = crate::env::Gifts::enter();
            s.extend(cows);
            obs.n(fold_str(s.st()));
            *s += pool;
            obs.n(fold_str(s.st()));
        }
        _ => {
            let mut t = me;
            t.clone_from(other);
            obs.n(fold_str(t.st()));
            obs.n((t == *other) as i64);
            drop(t);
        }
    }
}

fn spred(p: u8, call: usize, c: char) -> bool {
    match p {
        0 => true,
        1 => false,
        2 => call % 2 == 0,
        3 => c.is_ascii(),
        _ => !c.is_ascii(),
    }
}

fn apply<S: StrLike>(slot: &mut Option<S>, world: u8, act: SAct) -> Obs {
    let mut obs = Obs::default();
    let s = slot.as_mut().unwrap();
    let mut call = 0usize;
    match act {
        SAct::Nop | SAct::Canary => {}
        SAct::Push { c } => s.s_push(CH[c as usize]),
        SAct::PushStr { s: k } => s.s_push_str(POOL[k as usize]),
        SAct::Pop => obs.n(s.s_pop().map_or(-1, |c| c as i64)),
        SAct::Insert { i, c } => s.s_insert(bidx(i), CH[c as usize]),
        SAct::InsertStr { i, s: k } => s.s_insert_str(bidx(i), POOL[k as usize]),
        SAct::Remove { i } => obs.n(s.s_remove(bidx(i)) as i64),
        SAct::Truncate { i } => s.s_truncate(bidx(i)),
        SAct::Clear => s.s_clear(),
        SAct::Retain { p } => s.s_retain(&mut |c: char| {
            tick(K_PRED, world);
            let r = spred(p, call, c);
            call += 1;
            r
        }),
        SAct::Drain { r, mode } => s.s_drain(sbounds(r), mode, &mut obs),
        SAct::ReplaceRange { r, s: k } => s.s_replace_range(sbounds(r), POOL[k as usize]),
        SAct::SplitOff { i } => {
            let o = s.s_split_off(bidx(i));
            obs.n(o.st().len() as i64);
            for b in o.st().bytes() {
                obs.n(b as i64);
            }
            // the two halves are independent strings: edit the head while the tail is alive, then read the tail
            // again (and the other way round)
            s.s_push_str("é!");
            s.s_insert(0, 'x');
            obs.n(fold_str(o.st()));
            let mut o = o;
            o.s_push('€');
            obs.n(fold_str(s.st()));
            let _ = s.s_pop();
            let _ = s.s_pop();
            let _ = s.s_remove(0);
            obs.n(fold_str(o.st()));
            drop(o);
        }
        SAct::ExtendChars { s: k } => s.s_extend_chars(POOL[k as usize], world),
        SAct::ExtendStrs { s: k } => s.s_extend_strs(POOL[k as usize]),
        SAct::CloneCmp => {
            let c = s.s_clone();
            obs.n((c.st() == s.st()) as i64);
            obs.n(c.st().len() as i64);
            drop(c);
        }
        SAct::Format { s: k } => {
            let f = s.format_like(POOL[k as usize], s.st().len());
            obs.n(f.st().len() as i64);
            for b in f.st().bytes().take(30) {
                obs.n(b as i64);
            }
            drop(f);
        }
        SAct::WriteFmt { s: k } => {
            let n = s.st().len();
            s.s_write_fmt(POOL[k as usize], n)
        }
        SAct::IntoBumpStr => {
            let fresh = s.fresh();
            let old = slot.replace(fresh).unwrap();
            let t = old.s_leak();
            obs.n(t.len() as i64);
            for b in t.bytes() {
                obs.n(b as i64);
            }
        }
        SAct::FromStrIn { s: k } => {
            let n = s.from_str_like(POOL[k as usize]);
            drop(slot.replace(n));
        }
        SAct::FromIterIn { s: k } => {
            let n = s.from_chars_like(POOL[k as usize]);
            drop(slot.replace(n));
        }
        SAct::Reserve { k } => s.s_reserve(bidx(k)),
        SAct::ReserveExact { k } => s.s_reserve_exact(bidx(k)),
        SAct::ShrinkToFit => s.s_shrink(),
        SAct::BytesRoundTrip => {
            let fresh = s.fresh();
            let old = slot.replace(fresh).unwrap();
            let n = old.s_bytes_roundtrip();
            drop(slot.replace(n));
        }
        SAct::Slice { r } => {
            let t = &s.st()[sbounds(r)];
            obs.n(t.len() as i64);
            if let Some(b) = t.bytes().next() {
                obs.n(b as i64);
            }
        }
        SAct::AddStr { s: k } => {
            let fresh = s.fresh();
            let old = slot.replace(fresh).unwrap();
            let n = old.s_add(POOL[k as usize]);
            drop(slot.replace(n));
        }
        SAct::IsCharBoundary { i } => obs.n(s.st().is_char_boundary(bidx(i)) as i64),
        SAct::Inspect { k } => {
            if k == 20 {
                for bytes in [&b"ab\xffcd"[..], &b"\xe2\x82"[..], &b"ok"[..], &b"\xf0\x9f\x98"[..], &b"a\xc3\x28"[..]] {
                    s.s_from_utf8_err(bytes, &mut obs);
                }
                s.s_utf16_err(&mut obs);
            } else if k == 21 {
                let fresh = s.fresh();
                let old = slot.replace(fresh).unwrap();
                let n = old.s_raw_roundtrip();
                obs.n(n.st().len() as i64);
                drop(slot.replace(n));
            } else {
                let mut other = s.s_clone();
                if k % 2 == 1 {
                    let _ = other.s_pop();
                }
                s.s_inspect(&other, k, POOL[(k as usize) % POOL.len()], &mut obs);
                drop(other);
            }
        }
    }
    obs
}

pub fn sact_name(a: &SAct) -> &'static str {
    match a {
        SAct::Nop => "nop",
        SAct::Push { .. } => "push",
        SAct::PushStr { .. } => "push_str",
        SAct::Pop => "pop",
        SAct::Insert { .. } => "insert",
        SAct::InsertStr { .. } => "insert_str",
        SAct::Remove { .. } => "remove",
        SAct::Truncate { .. } => "truncate",
        SAct::Clear => "clear",
        SAct::Retain { .. } => "retain",
        SAct::Drain { .. } => "drain",
        SAct::ReplaceRange { .. } => "replace_range",
        SAct::SplitOff { .. } => "split_off",
        SAct::ExtendChars { .. } => "extend_chars",
        SAct::ExtendStrs { .. } => "extend_strs",
        SAct::CloneCmp => "clone",
        SAct::Format { .. } => "format",
        SAct::WriteFmt { .. } => "write_fmt",
        SAct::IntoBumpStr => "into_bump_str",
        SAct::FromStrIn { .. } => "from_str_in",
        SAct::FromIterIn { .. } => "from_iter_in",
        SAct::Reserve { .. } => "reserve",
        SAct::ReserveExact { .. } => "reserve_exact",
        SAct::ShrinkToFit => "shrink_to_fit",
        SAct::BytesRoundTrip => "into_bytes_from_utf8",
        SAct::Slice { .. } => "index_range",
        SAct::AddStr { .. } => "add",
        SAct::IsCharBoundary { .. } => "is_char_boundary",
        SAct::Inspect { .. } => "inspect",
        SAct::Canary => "neighbour_raw_alloc",
    }
}

fn viol(v: &mut Vec<Violation>, prop: u8, clause: &'static str, key: String, detail: String) {
    v.push(Violation { prop, clause, key, detail, unsafe_mem: false });
}

impl StrModel {
    fn enabled(&self, text: &str, ncan: usize, depth: usize) -> Vec<SFAct> {
        let mut a: Vec<SAct> = Vec::with_capacity(4000);
        let len = text.len();
        let nch = text.chars().count();
        let room = self.max_chars.saturating_sub(nch);
        let t = self.thorough;
        let mut idx: Vec<u8> = (0..=(len as u8 + 1)).collect();
        idx.push(255);
        if room > 0 {
            for c in 0..4u8 {
                a.push(SAct::Push { c });
                for &i in &idx {
                    a.push(SAct::Insert { i, c });
                }
            }
        }
        for k in 0..POOL.len() as u8 {
            let kc = POOL[k as usize].chars().count();
            if kc <= room {
                a.push(SAct::PushStr { s: k });
                a.push(SAct::AddStr { s: k });
                a.push(SAct::ExtendChars { s: k });
                for &i in &idx {
                    a.push(SAct::InsertStr { i, s: k });
                }
            }
            if 2 * kc + 1 <= room {
                a.push(SAct::ExtendStrs { s: k });
            }
            if kc <= self.max_chars {
                a.push(SAct::FromStrIn { s: k });
                a.push(SAct::FromIterIn { s: k });
            }
            a.push(SAct::Format { s: k });
        }
        if room >= 12 {
            a.push(SAct::WriteFmt { s: 1 });
        }
        a.push(SAct::Pop);
        a.push(SAct::Clear);
        a.push(SAct::CloneCmp);
        for k in [0u8, 1, 2, 3, 7, 20, 21] {
            a.push(SAct::Inspect { k });
        }
        if nch <= 1 {
            // the Extend impls for &char / Self / std String / Cow<str>, and += (on short strings only: they grow the text)
            for k in [4u8, 5, 6] {
                a.push(SAct::Inspect { k });
            }
        }
        a.push(SAct::IntoBumpStr);
        a.push(SAct::ShrinkToFit);
        a.push(SAct::BytesRoundTrip);
        for &i in &idx {
            a.push(SAct::Remove { i });
            a.push(SAct::Truncate { i });
            a.push(SAct::SplitOff { i });
            a.push(SAct::IsCharBoundary { i });
        }
        for p in 0..5u8 {
            a.push(SAct::Retain { p });
        }
        for k in [0u8, 1, 9, 255] {
            a.push(SAct::Reserve { k });
            a.push(SAct::ReserveExact { k });
        }
        // every range form over every byte index
        let ridx: Vec<u8> = if t || len <= 6 { idx.clone() } else { idx.iter().copied().filter(|i| *i <= 4 || *i as usize + 3 >= len || *i == 255).collect() };
        for sbk in 0..3u8 {
            for &si in if sbk == 0 { &[0u8][..] } else { &ridx[..] } {
                for ebk in 0..3u8 {
                    for &ei in if ebk == 0 { &[0u8][..] } else { &ridx[..] } {
                        let r = SRg { sb: sbk, si, eb: ebk, ei };
                        for mode in 0..4u8 {
                            a.push(SAct::Drain { r, mode });
                        }
                        a.push(SAct::Slice { r });
                        for k in [0u8, 2, 3] {
                            if POOL[k as usize].chars().count() <= room {
                                a.push(SAct::ReplaceRange { r, s: k });
                            }
                        }
                    }
                }
            }
        }
        if ncan < 1 {
            a.push(SAct::Canary);
        }
        let last = depth + 1 >= self.max_depth;
        match self.mode {
            SMode::Diff => a.into_iter().map(|a| SFAct { a, fk: 0, fi: 0 }).collect(),
            SMode::Faults => {
                let mut out = Vec::new();
                if !last {
                    for x in a.iter() {
                        if matches!(x, SAct::Push { .. } | SAct::Pop | SAct::Remove { i: 0 } | SAct::ShrinkToFit | SAct::Reserve { k: 9 }) {
                            out.push(SFAct { a: *x, fk: 0, fi: 0 });
                        }
                    }
                }
                for x in a.iter() {
                    let kinds: &[u8] = match x {
                        SAct::Retain { .. } => &[K_PRED],
                        SAct::ExtendChars { .. } => &[K_ITER],
                        _ => &[],
                    };
                    for &fk in kinds {
                        for fi in 0..(self.max_chars as u8 + 2) {
                            out.push(SFAct { a: *x, fk, fi });
                        }
                    }
                }
                out
            }
        }
    }
}

impl Model for StrModel {
    type Cfg = SCfg;
    type Act = SFAct;

    fn configs(&self) -> Vec<SCfg> {
        match self.mode {
            SMode::Diff => vec![SCfg { start_cap: 0, init_len: 0, init_bits: 0 }, SCfg { start_cap: 7, init_len: 0, init_bits: 0 }],
            SMode::Faults => {
                let mut v = Vec::new();
                for len in 0..=(self.max_chars.min(4) as u8) {
                    for bits in 0..(1u16 << (2 * len)) {
                        for start_cap in [0u8, 40] {
                            v.push(SCfg { start_cap, init_len: len, init_bits: bits as u8 });
                        }
                    }
                }
                v
            }
        }
    }

    fn run(&self, w: &mut Worker, h: &Hist<SCfg, SFAct>, want_enabled: bool) -> RunOut<SFAct> {
        let envp: *mut ExecEnv = &mut *w.env;
        unsafe { (*envp).begin_execution() };
        reset_ledgers();
        if crate::util::static_dirty() {
            crate::util::restore_static();
        }
        let bump: *mut Bump = Box::into_raw(Box::new(arena_op(envp, 0, 0, &[], Bump::new).unwrap()));
        let bref: &'static Bump = unsafe { &*bump };
        let sc = h.cfg.start_cap as usize;
        let mut bs: Option<BString<'static>> = Some(arena_op(envp, 0, 0, &[], || if sc == 0 { BString::new_in(bref) } else { BString::with_capacity_in(sc, bref) }).unwrap());
        let mut ss: Option<String> = Some(if sc == 0 { String::new() } else { String::with_capacity(sc) });
        for k in 0..h.cfg.init_len {
            let c = CH[((h.cfg.init_bits >> (2 * k)) & 3) as usize];
            let b = bs.as_mut().unwrap();
            let _ = arena_op(envp, 0, 0, &[], || b.push(c));
            ss.as_mut().unwrap().push(c);
        }
        let mut v: Vec<Violation> = Vec::new();
        let mut canary: Option<usize> = None;
        let n = h.len as usize;
        let mut diverged = false;
        let mut outcome = 0u64;
        let mut cov = 0u64;
        for (i, s) in h.steps().iter().enumerate() {
            let judge = i + 1 == n;
            let fa = s.act;
            let what = sact_name(&fa.a);
            if let SAct::Canary = fa.a {
                if let Ok(a) = arena_op(envp, i as u32 + 1, 0, &[], || bref.alloc_layout(std::alloc::Layout::from_size_align(8, 1).unwrap()).as_ptr() as usize) {
                    for j in 0..8 {
                        unsafe { *((a + j) as *mut u8) = 0xC0 + j as u8 };
                    }
                    canary = Some(a);
                }
                continue;
            }
            if fa.fk != 0 {
                arm_fault(fa.fk, fa.fi as u32);
            }
            let r0 = {
                let slot = &mut bs;
                arena_op(envp, i as u32 + 1, 0, &[], || apply::<BString<'static>>(slot, 0, fa.a))
            };
            if fa.fk != 0 {
                let fired = !disarm_fault();
                let _ = disarm_fault();
                diverged = true;
                if judge {
                    let injected = matches!(r0, Err(PanicClass::Injected));
                    outcome = if fired && injected { 1 } else if fired { 4 } else { 2 };
                    cov |= 1 << (outcome - 1);
                    if fired {
                        // C16: the text must still be valid UTF-8, and the string usable
                        let b = bs.as_mut().unwrap();
                        let bytes: Vec<u8> = {
                            let _g = Callback::enter();
                            b.as_bytes().to_vec()
                        };
                        if std::str::from_utf8(&bytes).is_err() {
                            viol(&mut v, 16, "invalid_utf8_after_panic", format!("invalid_utf8_after_panic/{what}"), format!("{what} ({:?}): the callback panicked at invocation {}; the String now holds the bytes {:02x?}, which are not valid UTF-8", fa.a, fa.fi, bytes));
                        } else {
                            let r = arena_op(envp, i as u32 + 1, 0, &[], || {
                                b.push('é');
                                let n = b.chars().count();
                                b.clear();
                                n
                            });
                            if r.is_err() {
                                viol(&mut v, 16, "container_unusable_after_panic", format!("container_unusable_after_panic/{what}"), format!("{what}: using the String after the caught panic panicked"));
                            }
                        }
                    }
                }
                break;
            }
            let r1 = {
                let slot = &mut ss;
                let _g = Callback::enter();
                crate::util::quiet(|| catch_unwind(AssertUnwindSafe(|| apply::<String>(slot, 1, fa.a))).map_err(|p| classify_panic(&*p)))
            };
            if !judge {
                continue;
            }
            let mut hh = Hasher128::new();
            match (&r0, &r1) {
                (Ok(a), Ok(b)) => {
                    if a != b {
                        viol(&mut v, 14, "return_value_differs", format!("return_value_differs/{what}"), format!("{what} ({:?}) on {:?}: returned {:?}, std returned {:?}", fa.a, ss.as_ref().unwrap(), a.items(), b.items()));
                    }
                    hh.u(1);
                    for x in a.items() {
                        hh.u(*x as u64);
                    }
                    cov |= 1;
                }
                (Err(p), Ok(_)) => viol(&mut v, 14, "panics_where_std_does_not", format!("panics_where_std_does_not/{what}"), format!("{what} ({:?}): panicked ({:?}); std returned normally", fa.a, p)),
                (Ok(_), Err(p)) => viol(&mut v, 14, "no_panic_where_std_panics", format!("no_panic_where_std_panics/{what}"), format!("{what} ({:?}) on text of {} bytes: returned normally; std panicked ({})", fa.a, ss.as_ref().unwrap().len(), format!("{:?}", p).chars().take(90).collect::<String>())),
                (Err(_), Err(_)) => {
                    hh.u(2);
                    cov |= 2;
                }
            }
            let (b, sref) = (bs.as_ref().unwrap(), ss.as_ref().unwrap());
            let bytes: Vec<u8> = {
                let _g = Callback::enter();
                b.as_bytes().to_vec()
            };
            if std::str::from_utf8(&bytes).is_err() {
                viol(&mut v, 14, "invalid_utf8", format!("invalid_utf8/{what}"), format!("{what} ({:?}): bytes {:02x?} are not valid UTF-8", fa.a, bytes));
            } else if bytes != sref.as_bytes() {
                viol(&mut v, 14, "text_differs", format!("text_differs/{what}"), format!("{what} ({:?}): text {:?}, std has {:?}", fa.a, String::from_utf8_lossy(&bytes), sref));
            }
            if b.capacity() < b.len() {
                viol(&mut v, 14, "capacity_below_len", format!("capacity_below_len/{what}"), format!("{what}: capacity {} < len {}", b.capacity(), b.len()));
            }
            if let (SAct::Reserve { k } | SAct::ReserveExact { k }, Ok(_)) = (fa.a, &r0) {
                if k != 255 && b.capacity() < b.len() + k as usize {
                    viol(&mut v, 14, "reserve_promise_broken", format!("reserve_promise_broken/{what}"), format!("{what}: capacity {} after reserving {} beyond len {}", b.capacity(), k, b.len()));
                }
            }
            if let Some(a) = canary {
                for j in 0..8 {
                    if unsafe { *((a + j) as *const u8) } != 0xC0 + j as u8 {
                        viol(&mut v, 14, "neighbour_disturbed", format!("neighbour_disturbed/{what}"), format!("{what}: a raw allocation in the same arena was overwritten"));
                        break;
                    }
                }
            }
            if let Some(a) = unsafe { (*envp).check_redzones() } {
                viol(&mut v, 14, "write_outside_arena_memory", format!("write_outside_arena_memory/{what}"), format!("red zone at {:#x} overwritten", a));
            }
            hh.u(bytes.len() as u64);
            outcome = hh.finish64();
        }
        let mut kh = Hasher128::new();
        let text: String = ss.as_ref().map(|s| s.clone()).unwrap_or_default();
        {
            let b = bs.as_ref().unwrap();
            for x in b.as_bytes() {
                kh.u(*x as u64);
            }
            kh.u(b.len() as u64);
            kh.u(b.capacity() as u64);
            kh.u(bref.chunk_capacity() as u64);
            kh.u(bref.allocated_bytes() as u64);
            let finger = unsafe { bref.iter_allocated_chunks_raw().next().map(|c| c.0 as usize).unwrap_or(0) };
            kh.u((b.as_ptr() as usize == finger && b.capacity() > 0) as u64);
            kh.u(canary.is_some() as u64);
            kh.u(diverged as u64);
        }
        if self.mode == SMode::Faults {
            kh.u((n + 1 >= self.max_depth) as u64);
        }
        let mut out = RunOut { key: kh.finish(), enabled: Vec::new(), nreq_last: 0, terminal: diverged, violations: Vec::new(), cov, outcome };
        if want_enabled && !diverged {
            out.enabled = self.enabled(&text, canary.is_some() as usize, n);
        }
        let bst = bs.take();
        let _ = arena_op(envp, n as u32 + 1, 0, &[], move || drop(bst));
        drop(ss);
        // drop the arena inside the window; free the harness Box that held it outside
        let _ = arena_op(envp, n as u32 + 2, 0, &[], || unsafe { std::ptr::drop_in_place(bump) });
        drop(unsafe { Box::from_raw(bump as *mut std::mem::ManuallyDrop<Bump>) });
        let faults: Vec<crate::env::EnvFault> = unsafe { (*envp).faults.clone() };
        for f in faults {
            viol(&mut v, 14, "allocator_misuse", "allocator_misuse".into(), format!("{:?}", f));
        }
        out.violations = v;
        out
    }

    fn cov_names(&self) -> &'static [&'static str] {
        match self.mode {
            SMode::Diff => &["both_returned", "both_panicked"],
            SMode::Faults => &["fault_fired", "fault_not_reached", "unused", "fault_fired_other_panic"],
        }
    }
    fn alt_answers(&self) -> Vec<crate::env::Answer> {
        vec![]
    }
    fn describe(&self, h: &Hist<SCfg, SFAct>) -> serde_json::Value {
        let init: String = (0..h.cfg.init_len).map(|k| CH[((h.cfg.init_bits >> (2 * k)) & 3) as usize]).collect();
        let steps: Vec<String> = h.steps().iter().map(|s| if s.act.fk == 0 { format!("{:?}", s.act.a) } else { format!("{:?} with the callback panicking at its invocation #{}", s.act.a, s.act.fi) }).collect();
        serde_json::json!({"container": "collections::String", "initial_capacity": h.cfg.start_cap, "initial_text": init, "steps": steps})
    }
}

#[allow(dead_code)]
fn _u() {
    let _ = _unused_bounds;
}
