//! Element types with observable Clone/Drop/PartialEq, the per-world drop ledgers, and the
//! callback fault injector (C13, C15, C16).

use crate::env::Callback;
use crate::util::injected_panic;
use std::cell::{Cell, RefCell};

pub const K_PRED: u8 = 1;
pub const K_CLONE: u8 = 2;
pub const K_DROP: u8 = 4;
pub const K_ITER: u8 = 8;
pub const K_EQ: u8 = 16;
pub const K_KEY: u8 = 32;
pub const K_INIT: u8 = 64;

thread_local! {
    /// dropped labels per world (0 = arena-backed, 1 = std reference)
    static DROPL: RefCell<[Vec<u32>; 2]> = const { RefCell::new([Vec::new(), Vec::new()]) };
    static CLONES: RefCell<[Vec<(u32, u8)>; 2]> = const { RefCell::new([Vec::new(), Vec::new()]) };
    /// (kind mask, countdown) — only ticks from world 0 count
    static FAULT: Cell<(u8, u32)> = const { Cell::new((0, 0)) };
    static TICKS: Cell<u32> = const { Cell::new(0) };
}

pub fn reset_ledgers() {
    let _g = Callback::enter();
    DROPL.with(|d| {
        let mut d = d.borrow_mut();
        d[0].clear();
        d[1].clear();
    });
    CLONES.with(|d| {
        let mut d = d.borrow_mut();
        d[0].clear();
        d[1].clear();
    });
    FAULT.with(|f| f.set((0, 0)));
    TICKS.with(|t| t.set(0));
}

pub fn arm_fault(kinds: u8, index: u32) {
    FAULT.with(|f| f.set((kinds, index)));
    TICKS.with(|t| t.set(0));
}
pub fn disarm_fault() -> bool {
    let (k, _) = FAULT.with(|f| f.replace((0, 0)));
    k != 0
}
pub fn ticks() -> u32 {
    TICKS.with(|t| t.get())
}

/// Called by every user callback of world 0; panics when the armed invocation is reached.
#[inline]
pub fn tick(kind: u8, world: u8) {
    if world != 0 || std::thread::panicking() {
        // a second panic while unwinding aborts by the language's rules: not a case to inject
        return;
    }
    let (k, n) = FAULT.with(|f| f.get());
    if k & kind == 0 {
        return;
    }
    TICKS.with(|t| t.set(t.get() + 1));
    if n == 0 {
        FAULT.with(|f| f.set((0, 0)));
        let _g = Callback::enter();
        injected_panic();
    }
    FAULT.with(|f| f.set((k, n - 1)));
}

pub fn dropped(world: usize) -> Vec<u32> {
    let _g = Callback::enter();
    DROPL.with(|d| {
        let mut v = d.borrow()[world].clone();
        v.sort();
        v
    })
}
pub fn drop_count(world: usize, label: u32) -> usize {
    DROPL.with(|d| d.borrow()[world].iter().filter(|x| **x == label).count())
}
pub fn first_double_drop(world: usize) -> Option<u32> {
    let v = dropped(world);
    v.windows(2).find(|w| w[0] == w[1]).map(|w| w[0])
}

/// Drop-tracked element. Equality looks at `val` only (so duplicates exist for dedup/retain).
#[derive(Debug)]
pub struct D {
    pub world: u8,
    pub label: u32,
    pub val: u8,
}
impl D {
    pub fn new(world: u8, label: u32, val: u8) -> D {
        D { world, label, val }
    }
}
impl Drop for D {
    fn drop(&mut self) {
        {
            let _g = Callback::enter();
            DROPL.with(|d| d.borrow_mut()[self.world as usize & 1].push(self.label));
        }
        tick(K_DROP, self.world);
    }
}
impl Clone for D {
    fn clone(&self) -> D {
        tick(K_CLONE, self.world);
        let _g = Callback::enter();
        let n = CLONES.with(|c| {
            let mut c = c.borrow_mut();
            let c = &mut c[self.world as usize & 1];
            match c.iter_mut().find(|e| e.0 == self.label) {
                Some(e) => {
                    e.1 += 1;
                    e.1
                }
                None => {
                    c.push((self.label, 1));
                    1
                }
            }
        });
        D { world: self.world, label: (self.label.wrapping_mul(32).wrapping_add(n as u32 + 100_000)) % 3_000_000_000, val: self.val }
    }
}
impl PartialEq for D {
    fn eq(&self, o: &D) -> bool {
        tick(K_EQ, self.world);
        self.val == o.val
    }
}

/// Zero-sized droppable element: identity cannot be tracked, only counts.
#[derive(Debug, Clone, PartialEq)]
pub struct Z;
thread_local! {
    static ZDROPS: Cell<[u32; 2]> = const { Cell::new([0, 0]) };
    pub static ZWORLD: Cell<u8> = const { Cell::new(0) };
}
impl Drop for Z {
    fn drop(&mut self) {
        let w = ZWORLD.with(|w| w.get()) as usize & 1;
        ZDROPS.with(|z| {
            let mut a = z.get();
            a[w] += 1;
            z.set(a);
        });
    }
}
pub fn zdrops() -> [u32; 2] {
    ZDROPS.with(|z| z.get())
}
pub fn zdrops_reset() {
    ZDROPS.with(|z| z.set([0, 0]));
}

/// Uniform view of the element families used by the Vec model.
impl std::hash::Hash for D {
    fn hash<H: std::hash::Hasher>(&self, h: &mut H) {
        self.val.hash(h)
    }
}
impl PartialOrd for D {
    fn partial_cmp(&self, o: &D) -> Option<std::cmp::Ordering> {
        self.val.partial_cmp(&o.val)
    }
}
impl std::hash::Hash for Z {
    fn hash<H: std::hash::Hasher>(&self, h: &mut H) {
        0u8.hash(h)
    }
}
impl PartialOrd for Z {
    fn partial_cmp(&self, _o: &Z) -> Option<std::cmp::Ordering> {
        Some(std::cmp::Ordering::Equal)
    }
}

pub trait Elem: Sized + Clone + PartialEq + PartialOrd + std::hash::Hash + std::fmt::Debug + 'static {
    const NAME: &'static str;
    const COPY: bool;
    const TRACKED: bool;
    fn mk(world: u8, label: u32, val: u8) -> Self;
    fn val(&self) -> u8;
    fn label(&self) -> u32;
    fn dup(&self) -> Self;
    fn same(&self, o: &Self) -> bool;
    /// Copy-only operations (0 = extend_from_slice_copy, 1 = extend_from_slices_copy, 2 = Extend<&T>)
    fn copy_op<V: super::veclike::VecLike<Self>>(_v: &mut V, _which: u8, _a: &[Self], _b: &[Self]) {
        unreachable!("copy operation on a non-Copy element type")
    }
}
impl Elem for D {
    const NAME: &'static str = "D";
    const COPY: bool = false;
    const TRACKED: bool = true;
    fn mk(world: u8, label: u32, val: u8) -> D {
        D::new(world, label, val)
    }
    fn val(&self) -> u8 {
        self.val
    }
    fn label(&self) -> u32 {
        self.label
    }
    fn dup(&self) -> D {
        self.clone()
    }
    fn same(&self, o: &D) -> bool {
        self == o
    }
}
impl Elem for u8 {
    const NAME: &'static str = "u8";
    const COPY: bool = true;
    const TRACKED: bool = false;
    fn mk(_world: u8, _label: u32, val: u8) -> u8 {
        val
    }
    fn val(&self) -> u8 {
        *self
    }
    fn label(&self) -> u32 {
        *self as u32
    }
    fn dup(&self) -> u8 {
        *self
    }
    fn same(&self, o: &u8) -> bool {
        self == o
    }
    fn copy_op<V: super::veclike::VecLike<u8>>(v: &mut V, which: u8, a: &[u8], b: &[u8]) {
        match which {
            0 => v.v_extend_copy(a),
            1 => v.v_extend_copies(a, b),
            _ => v.v_extend_refs(a),
        }
    }
}
impl Elem for Z {
    const NAME: &'static str = "Z";
    const COPY: bool = false;
    const TRACKED: bool = false;
    fn mk(_world: u8, _label: u32, _val: u8) -> Z {
        Z
    }
    fn val(&self) -> u8 {
        0
    }
    fn label(&self) -> u32 {
        0
    }
    fn dup(&self) -> Z {
        Z
    }
    fn same(&self, _o: &Z) -> bool {
        true
    }
}
