//! One operation vocabulary, two implementations: `bumpalo::collections::Vec` (world 0) and
//! `std::vec::Vec` (world 1, the reference model). Every action is applied to both through the
//! same generic code so that only the container type differs.

use super::elem::*;
use crate::env::Callback;
use bumpalo::collections::Vec as BVec;
use bumpalo::Bump;
use std::ops::Bound;

#[derive(Clone, Copy, Debug, PartialEq, Eq, Hash)]
#[repr(C)]
pub struct Rg {
    pub sb: u8,
    pub si: u8,
    pub eb: u8,
    pub ei: u8,
}

/// Index codes, resolved against the current length n.
pub fn ix(code: u8, n: usize) -> usize {
    match code {
        0 => 0,
        1 => n / 2,
        2 => n.wrapping_sub(1),
        3 => n,
        4 => n + 1,
        5 => usize::MAX,
        6 => 1,
        7 => n + 3,
        _ => (code as usize) - 8,
    }
}

pub fn bounds(r: Rg, n: usize) -> (Bound<usize>, Bound<usize>) {
    let b = |k: u8, c: u8| match k {
        0 => Bound::Unbounded,
        1 => Bound::Included(ix(c, n)),
        _ => Bound::Excluded(ix(c, n)),
    };
    (b(r.sb, r.si), b(r.eb, r.ei))
}

#[derive(Clone, Copy, Debug, PartialEq, Eq, Hash)]
#[repr(C)]
pub enum VAct {
    Nop,
    Push { val: u8 },
    Pop,
    Insert { i: u8, val: u8 },
    Remove { i: u8 },
    SwapRemove { i: u8 },
    Truncate { i: u8 },
    Clear,
    Resize { i: u8, val: u8 },
    ExtendIter { n: u8, hint: u8 },
    ExtendFromSlice { n: u8 },
    ExtendCopy { n: u8 },
    ExtendCopies { a: u8, b: u8 },
    ExtendRefs { n: u8 },
    Append { n: u8 },
    SplitOff { i: u8 },
    Drain { r: Rg, mode: u8 },
    Splice { r: Rg, n: u8, hint: u8, mode: u8 },
    Retain { p: u8 },
    DrainFilter { p: u8, mode: u8 },
    Dedup,
    DedupBy { p: u8 },
    DedupByKey { p: u8 },
    Reserve { i: u8 },
    ReserveExact { i: u8 },
    TryReserve { i: u8 },
    TryReserveExact { i: u8 },
    /// a fallible reservation the arena cannot satisfy (the controlled allocator refuses requests above 1 MiB);
    /// the reference does nothing. The failed call must leave the vector (and its buffer) untouched and owned.
    TryReserveRefused { exact: bool },
    ShrinkToFit,
    CloneCmp,
    IntoIter { front: u8, back: u8, forget: bool },
    /// other iterator methods of IntoIter (nth, nth_back, count, last, as_slice, size_hint, skip)
    IntoIterX { k: u8 },
    /// read-only trait surface: is_empty, Hash, IntoIterator for &/&mut, comparisons, Debug, AsRef/AsMut/Borrow
    Inspect { k: u8 },
    IntoBumpSlice { mutable: bool },
    IntoBoxed,
    FromIterIn { n: u8, hint: u8 },
    CollectIn { n: u8 },
    VecMacro { n: u8, repeat: bool },
    WithCap { n: u8 },
    WriteIo { n: u8, all: bool },
    Index { i: u8 },
    SetLenDropAll,
    // neighbours in the same arena
    Canary,
    SibPush,
    SibStr,
    SibBox,
}

/// What an operation returned, in a form comparable across worlds (allocation-free: it is
/// filled inside the arena-operation window).
#[derive(Clone, Copy, Debug, PartialEq, Eq)]
pub struct Obs {
    pub n: usize,
    pub a: [i64; 48],
}
impl Default for Obs {
    fn default() -> Self {
        Obs { n: 0, a: [0; 48] }
    }
}
impl Obs {
    pub fn el<E: Elem>(&mut self, e: &E) {
        self.n(e.label() as i64 * 4 + e.val() as i64);
    }
    pub fn n(&mut self, x: i64) {
        if self.n < 48 {
            self.a[self.n] = x;
        }
        self.n += 1;
    }
    pub fn items(&self) -> &[i64] {
        &self.a[..self.n.min(48)]
    }
    /// order-sensitive digest of everything logged (used for callback argument sequences)
    pub fn digest(&self) -> i64 {
        let mut h: u64 = 0xcbf29ce484222325 ^ self.n as u64;
        for x in self.items() {
            h = (h ^ *x as u64).wrapping_mul(0x100000001b3);
        }
        (h >> 8) as i64
    }
}

pub struct Labels {
    pub next: u32,
}
impl Labels {
    pub fn take(&mut self) -> u32 {
        self.next += 1;
        self.next
    }
}

/// Replacement / source iterator with a chosen size_hint quality; `next` is a user callback.
pub struct Src<E: Elem> {
    pub items: std::mem::ManuallyDrop<std::vec::IntoIter<E>>,
    pub left: usize,
    pub hint: u8,
    pub world: u8,
}
impl<E: Elem> Iterator for Src<E> {
    type Item = E;
    fn next(&mut self) -> Option<E> {
        tick(K_ITER, self.world);
        let _g = Callback::enter();
        let x = self.items.next();
        if x.is_some() {
            self.left -= 1;
        }
        x
    }
    fn size_hint(&self) -> (usize, Option<usize>) {
        match self.hint {
            0 => (self.left, Some(self.left)),
            1 => (0, None),
            _ => (self.left / 2, Some(self.left + 2)),
        }
    }
}
impl<E: Elem> Drop for Src<E> {
    fn drop(&mut self) {
        // harness memory: freed outside the chunk-request classification
        let _g = Callback::enter();
        unsafe { std::mem::ManuallyDrop::drop(&mut self.items) }
    }
}

/// Reference semantics of bumpalo's `drain_filter` (the pre-`extract_if` std contract it was
/// forked from): dropping the iterator runs the filter over all remaining elements.
pub struct ExhaustOnDrop<I: Iterator>(pub I);
impl<I: Iterator> Iterator for ExhaustOnDrop<I> {
    type Item = I::Item;
    fn next(&mut self) -> Option<I::Item> {
        self.0.next()
    }
    fn size_hint(&self) -> (usize, Option<usize>) {
        self.0.size_hint()
    }
}
impl<I: Iterator> Drop for ExhaustOnDrop<I> {
    fn drop(&mut self) {
        // the old contract's `panic_flag`: nothing more is filtered once the predicate has panicked
        if std::thread::panicking() {
            return;
        }
        for x in self.0.by_ref() {
            drop(x);
        }
    }
}

pub fn src<E: Elem>(world: u8, labels: &mut Labels, n: usize, hint: u8) -> Src<E> {
    let _g = Callback::enter();
    let items: Vec<E> = (0..n).map(|k| E::mk(world, labels.take(), (k % 2) as u8)).collect();
    Src { items: std::mem::ManuallyDrop::new(items.into_iter()), left: n, hint, world }
}

pub fn hint_code(h: (usize, Option<usize>)) -> i64 {
    h.0 as i64 * 1000 + h.1.map_or(999, |x| x as i64)
}

fn ord_code(o: Option<std::cmp::Ordering>) -> i64 {
    match o {
        None => 9,
        Some(std::cmp::Ordering::Less) => 1,
        Some(std::cmp::Ordering::Equal) => 2,
        Some(std::cmp::Ordering::Greater) => 3,
    }
}

/// The read-only trait surface every vector type in the comparison shares.
pub fn inspect_common<E: Elem, V>(v: &mut V, other: &V, k: u8, obs: &mut Obs)
where
    V: VecLike<E> + std::hash::Hash + PartialEq + PartialOrd + std::fmt::Debug + AsRef<[E]> + AsMut<[E]> + std::ops::Deref<Target = [E]> + std::ops::DerefMut,
    for<'x> &'x V: IntoIterator<Item = &'x E>,
    for<'x> &'x mut V: IntoIterator<Item = &'x mut E>,
{
    use std::hash::{Hash, Hasher};
    match k {
        0 => {
            obs.n(v.sl().is_empty() as i64);
            obs.n(<[E]>::is_empty(&**v) as i64);
            let mut h1 = std::collections::hash_map::DefaultHasher::new();
            Hash::hash(&*v, &mut h1);
            let mut h2 = std::collections::hash_map::DefaultHasher::new();
            Hash::hash(v.sl(), &mut h2);
            obs.n((h1.finish() == h2.finish()) as i64);
            let mut acc = 0i64;
            for e in &*v {
                acc = acc * 3 + e.val() as i64 + 1;
            }
            obs.n(acc);
            let mut cnt = 0i64;
            for e in &mut *v {
                cnt += 1 + e.val() as i64;
            }
            obs.n(cnt);
            let a: &[E] = (*v).as_ref();
            obs.n(a.len() as i64);
            let c: &mut [E] = (*v).as_mut();
            obs.n(c.len() as i64);
        }
        1 => {
            obs.n((*v == *other) as i64);
            obs.n((*v != *other) as i64);
            obs.n(ord_code(PartialOrd::partial_cmp(&*v, other)));
            obs.n(ord_code(PartialOrd::partial_cmp(other, &*v)));
            obs.n((*v < *other) as i64 * 8 + (*v <= *other) as i64 * 4 + (*v > *other) as i64 * 2 + (*v >= *other) as i64);
        }
        _ => {
            if E::COPY {
                let _g = Callback::enter();
                let t = format!("{:?}|{:#?}|{:>3?}", v, v, v);
                obs.n(t.len() as i64);
                obs.n(t.bytes().fold(7i64, |a, c| (a * 31 + c as i64) % 1_000_003));
            }
        }
    }
}

pub fn pred(p: u8, call: usize, val: u8) -> bool {
    match p {
        0 => true,
        1 => false,
        2 => call % 2 == 0,
        3 => call == 0,
        // predicates that panic at one call (diff mode, Copy elements only: what the vector holds after
        // the caught panic is compared with std's)
        7 => {
            if call == 2 {
                crate::util::injected_panic()
            }
            call % 2 == 0
        }
        8 => {
            if call == 1 {
                crate::util::injected_panic()
            }
            false
        }
        9 => {
            if call == 1 {
                crate::util::injected_panic()
            }
            true
        }
        _ => val == 1,
    }
}

pub trait VecLike<E: Elem>: Sized {
    /// a new container in this arena (the std reference ignores the arena)
    fn new_in_arena(b: &'static Bump, cap: usize) -> Self;
    fn fresh(&self) -> Self;
    fn with_cap(&self, n: usize) -> Self;
    fn from_iter_like(&self, it: Src<E>, how: u8) -> Self;
    fn macro_like(&self, items: Vec<E>) -> Self;
    /// the `vec![x; n]` form of the container's macro
    fn repeat_like(&self, e: E, n: usize) -> Self;
    fn sl(&self) -> &[E];
    fn cap(&self) -> usize;
    fn ptr(&self) -> usize;
    fn v_push(&mut self, e: E);
    fn v_pop(&mut self) -> Option<E>;
    fn v_insert(&mut self, i: usize, e: E);
    fn v_remove(&mut self, i: usize) -> E;
    fn v_swap_remove(&mut self, i: usize) -> E;
    fn v_truncate(&mut self, n: usize);
    fn v_clear(&mut self);
    fn v_resize(&mut self, n: usize, e: E);
    fn v_extend(&mut self, it: Src<E>);
    fn v_extend_from_slice(&mut self, s: &[E]);
    fn v_extend_copy(&mut self, s: &[E])
    where
        E: Copy;
    fn v_extend_copies(&mut self, a: &[E], b: &[E])
    where
        E: Copy;
    fn v_extend_refs(&mut self, s: &[E])
    where
        E: Copy;
    fn v_append(&mut self, o: &mut Self);
    fn v_split_off(&mut self, at: usize) -> Self;
    fn v_drain(&mut self, r: (Bound<usize>, Bound<usize>), mode: u8, obs: &mut Obs);
    fn v_splice(&mut self, r: (Bound<usize>, Bound<usize>), repl: Src<E>, mode: u8, obs: &mut Obs);
    fn v_retain(&mut self, f: &mut dyn FnMut(&E) -> bool);
    fn v_drain_filter(&mut self, f: &mut dyn FnMut(&mut E) -> bool, mode: u8, obs: &mut Obs);
    fn v_dedup(&mut self);
    fn v_dedup_by(&mut self, f: &mut dyn FnMut(&mut E, &mut E) -> bool);
    fn v_dedup_by_key(&mut self, f: &mut dyn FnMut(&mut E) -> u8);
    fn v_reserve(&mut self, n: usize);
    fn v_reserve_exact(&mut self, n: usize);
    fn v_try_reserve(&mut self, n: usize) -> bool;
    fn v_try_reserve_exact(&mut self, n: usize) -> bool;
    fn v_shrink(&mut self);
    fn v_clone(&self) -> Self;
    /// io::Write (u8 elements only); returns bytes written or -1 on error, None if not applicable
    fn v_write(&mut self, data: &[u8], all: bool) -> Option<i64>;
    fn v_into_iter(self, front: u8, back: u8, forget: bool, obs: &mut Obs);
    fn v_into_iter_x(self, k: u8, obs: &mut Obs);
    fn v_inspect(&mut self, other: &Self, k: u8, obs: &mut Obs);
    fn v_leak(self, mutable: bool) -> &'static [E];
    fn v_into_boxed(self, obs: &mut Obs);
    fn v_set_len(&mut self, n: usize);
}

macro_rules! impl_veclike {
    ($ty:ty, $newin:expr, $fresh:expr, $withcap:expr, $fromiter:expr, $macro:expr, $repeat:expr, $drainfilter:ident, $leak:expr, $boxed:expr, $tryres:expr, $tryresx:expr, $copy:ident, $copies:expr, $write:expr, $extra:expr) => {
        impl<E: Elem> VecLike<E> for $ty {
            fn new_in_arena(b: &'static Bump, cap: usize) -> Self {
                $newin(b, cap)
            }
            fn fresh(&self) -> Self {
                $fresh(self)
            }
            fn with_cap(&self, n: usize) -> Self {
                $withcap(self, n)
            }
            fn from_iter_like(&self, it: Src<E>, how: u8) -> Self {
                $fromiter(self, it, how)
            }
            fn macro_like(&self, items: Vec<E>) -> Self {
                $macro(self, items)
            }
            fn repeat_like(&self, e: E, n: usize) -> Self {
                $repeat(self, e, n)
            }
            fn sl(&self) -> &[E] {
                &self[..]
            }
            fn cap(&self) -> usize {
                self.capacity()
            }
            fn ptr(&self) -> usize {
                self.as_ptr() as usize
            }
            fn v_push(&mut self, e: E) {
                self.push(e)
            }
            fn v_pop(&mut self) -> Option<E> {
                self.pop()
            }
            fn v_insert(&mut self, i: usize, e: E) {
                self.insert(i, e)
            }
            fn v_remove(&mut self, i: usize) -> E {
                self.remove(i)
            }
            fn v_swap_remove(&mut self, i: usize) -> E {
                self.swap_remove(i)
            }
            fn v_truncate(&mut self, n: usize) {
                self.truncate(n)
            }
            fn v_clear(&mut self) {
                self.clear()
            }
            fn v_resize(&mut self, n: usize, e: E) {
                self.resize(n, e)
            }
            fn v_extend(&mut self, it: Src<E>) {
                self.extend(it)
            }
            fn v_extend_from_slice(&mut self, s: &[E]) {
                self.extend_from_slice(s)
            }
            fn v_extend_copy(&mut self, s: &[E])
            where
                E: Copy,
            {
                self.$copy(s)
            }
            fn v_extend_copies(&mut self, a: &[E], b: &[E])
            where
                E: Copy,
            {
                $copies(self, a, b)
            }
            fn v_extend_refs(&mut self, s: &[E])
            where
                E: Copy,
            {
                self.extend(s.iter())
            }
            fn v_append(&mut self, o: &mut Self) {
                self.append(o)
            }
            fn v_split_off(&mut self, at: usize) -> Self {
                self.split_off(at)
            }
            fn v_drain(&mut self, r: (Bound<usize>, Bound<usize>), mode: u8, obs: &mut Obs) {
                let mut d = self.drain(r);
                obs.n(d.len() as i64);
                obs.n(hint_code(d.size_hint()));
                if E::COPY {
                    let _g = Callback::enter();
                    let t = format!("{:?}", d);
                    obs.n(t.bytes().fold(t.len() as i64, |a, c| (a * 31 + c as i64) % 1_000_003));
                }
                match mode {
                    0 => {}
                    1 => {
                        if let Some(x) = d.next() {
                            obs.el(&x);
                        }
                    }
                    2 => {
                        if let Some(x) = d.next_back() {
                            obs.el(&x);
                        }
                    }
                    3 => {
                        for x in d.by_ref() {
                            obs.el(&x);
                        }
                    }
                    _ => {
                        std::mem::forget(d);
                        return;
                    }
                }
                drop(d);
            }
            fn v_splice(&mut self, r: (Bound<usize>, Bound<usize>), repl: Src<E>, mode: u8, obs: &mut Obs) {
                let mut s = self.splice(r, repl);
                obs.n(hint_code(s.size_hint()));
                match mode {
                    0 => {}
                    1 => {
                        if let Some(x) = s.next() {
                            obs.el(&x);
                        }
                    }
                    2 => {
                        if let Some(x) = s.next_back() {
                            obs.el(&x);
                        }
                    }
                    _ => {
                        for x in s.by_ref() {
                            obs.el(&x);
                        }
                    }
                }
                drop(s);
            }
            fn v_retain(&mut self, f: &mut dyn FnMut(&E) -> bool) {
                self.retain(|e| f(e))
            }
            fn v_drain_filter(&mut self, f: &mut dyn FnMut(&mut E) -> bool, mode: u8, obs: &mut Obs) {
                let mut d = $drainfilter!(self, |e: &mut E| f(e));
                obs.n(hint_code(d.size_hint()));
                match mode {
                    0 => {}
                    1 => {
                        if let Some(x) = d.next() {
                            obs.el(&x);
                        }
                    }
                    _ => {
                        for x in d.by_ref() {
                            obs.el(&x);
                        }
                    }
                }
                drop(d);
            }
            fn v_dedup(&mut self) {
                self.dedup()
            }
            fn v_dedup_by(&mut self, f: &mut dyn FnMut(&mut E, &mut E) -> bool) {
                self.dedup_by(|a, b| f(a, b))
            }
            fn v_dedup_by_key(&mut self, f: &mut dyn FnMut(&mut E) -> u8) {
                self.dedup_by_key(|a| f(a))
            }
            fn v_reserve(&mut self, n: usize) {
                self.reserve(n)
            }
            fn v_reserve_exact(&mut self, n: usize) {
                self.reserve_exact(n)
            }
            fn v_try_reserve(&mut self, n: usize) -> bool {
                $tryres(self, n)
            }
            fn v_try_reserve_exact(&mut self, n: usize) -> bool {
                $tryresx(self, n)
            }
            fn v_shrink(&mut self) {
                self.shrink_to_fit()
            }
            fn v_clone(&self) -> Self {
                self.clone()
            }
            fn v_write(&mut self, data: &[u8], all: bool) -> Option<i64> {
                if std::any::TypeId::of::<E>() != std::any::TypeId::of::<u8>() {
                    return None;
                }
                $write(self, data, all)
            }
            fn v_into_iter(self, front: u8, back: u8, forget: bool, obs: &mut Obs) {
                let mut it = self.into_iter();
                obs.n(it.len() as i64);
                for _ in 0..front {
                    if let Some(x) = it.next() {
                        obs.el(&x);
                    }
                }
                for _ in 0..back {
                    if let Some(x) = it.next_back() {
                        obs.el(&x);
                    }
                }
                obs.n(it.len() as i64);
                if forget {
                    std::mem::forget(it)
                } else {
                    drop(it)
                }
            }
            fn v_into_iter_x(self, k: u8, obs: &mut Obs) {
                let n = self.len();
                let mut it = self.into_iter();
                obs.n(hint_code(it.size_hint()));
                match k {
                    0 => {
                        if let Some(x) = it.nth(1) {
                            obs.el(&x);
                        }
                    }
                    1 => {
                        obs.n(it.nth(n).is_none() as i64);
                    }
                    2 => {
                        if let Some(x) = it.nth_back(1) {
                            obs.el(&x);
                        }
                    }
                    3 => {
                        obs.n(it.count() as i64);
                        return;
                    }
                    4 => {
                        if let Some(x) = it.last() {
                            obs.el(&x);
                        }
                        return;
                    }
                    5 => {
                        let _ = it.next();
                        let _ = it.next_back();
                        obs.n(it.as_slice().len() as i64);
                        for e in it.as_slice() {
                            obs.n(e.val() as i64);
                        }
                        obs.n(it.as_mut_slice().len() as i64);
                        if E::COPY {
                            let _g = Callback::enter();
                            let t = format!("{:?}", it);
                            obs.n(t.bytes().fold(t.len() as i64, |a, c| (a * 31 + c as i64) % 1_000_003));
                        }
                    }
                    6 => {
                        let mut sk = it.skip(n + 1);
                        obs.n(sk.next().is_none() as i64);
                        return;
                    }
                    7 => {
                        let mut sb = it.step_by(2);
                        while let Some(x) = sb.next() {
                            obs.el(&x);
                        }
                        return;
                    }
                    _ => {
                        let mut rv = it.rev();
                        if let Some(x) = rv.next() {
                            obs.el(&x);
                        }
                        return;
                    }
                }
                obs.n(hint_code(it.size_hint()));
                drop(it)
            }
            fn v_inspect(&mut self, other: &Self, k: u8, obs: &mut Obs) {
                inspect_common::<E, Self>(self, other, k, obs);
                if k == 0 {
                    $extra(self, other, obs);
                }
            }
            fn v_leak(self, mutable: bool) -> &'static [E] {
                $leak(self, mutable)
            }
            fn v_into_boxed(self, obs: &mut Obs) {
                $boxed(self, obs)
            }
            fn v_set_len(&mut self, n: usize) {
                unsafe { self.set_len(n) }
            }
        }
    };
}

macro_rules! b_drain_filter {
    ($v:expr, $f:expr) => {
        $v.drain_filter($f)
    };
}
macro_rules! s_drain_filter {
    ($v:expr, $f:expr) => {
        ExhaustOnDrop($v.extract_if(.., $f))
    };
}

fn b_bump<E>(v: &BVec<'static, E>) -> &'static Bump {
    v.bump()
}

impl_veclike!(
    BVec<'static, E>,
    |b: &'static Bump, cap: usize| if cap == 0 { BVec::new_in(b) } else { BVec::with_capacity_in(cap, b) },
    |s: &BVec<'static, E>| BVec::new_in(b_bump(s)),
    |s: &BVec<'static, E>, n: usize| BVec::with_capacity_in(n, b_bump(s)),
    |s: &BVec<'static, E>, it: Src<E>, how: u8| {
        use bumpalo::collections::CollectIn;
        match how {
            0 => BVec::from_iter_in(it, b_bump(s)),
            1 => it.collect_in::<BVec<'static, E>>(b_bump(s)),
            // FromIteratorIn for Option<C> / Result<C, E>: stops at the first None / Err
            2 | 3 => {
                let mut i = 0usize;
                let r = it.map(|e| { i += 1; if how == 3 && i == 2 { None } else { Some(e) } }).collect_in::<Option<BVec<'static, E>>>(b_bump(s));
                r.unwrap_or_else(|| BVec::new_in(b_bump(s)))
            }
            _ => {
                let mut i = 0usize;
                let r = it.map(|e| { i += 1; if how == 5 && i == 2 { Err(i) } else { Ok(e) } }).collect_in::<Result<BVec<'static, E>, usize>>(b_bump(s));
                r.unwrap_or_else(|_| BVec::new_in(b_bump(s)))
            }
        }
    },
    |s: &BVec<'static, E>, items: Vec<E>| {
        // the vec! macro's list form moves the values into a boxed array and converts
        let b = b_bump(s);
        let (n, x0, x1, x2) = {
            let _g = Callback::enter();
            let mut it = items.into_iter();
            (it.len(), it.next(), it.next(), it.next())
        };
        match n {
            0 => bumpalo::vec![in b],
            1 => bumpalo::vec![in b; x0.unwrap()],
            2 => bumpalo::vec![in b; x0.unwrap(), x1.unwrap()],
            _ => bumpalo::vec![in b; x0.unwrap(), x1.unwrap(), x2.unwrap()],
        }
    },
    |s: &BVec<'static, E>, e: E, n: usize| {
        let b = b_bump(s);
        bumpalo::vec![in b; e; n]
    },
    b_drain_filter,
    |s: BVec<'static, E>, mutable: bool| -> &'static [E] {
        if mutable {
            s.into_bump_slice_mut()
        } else {
            s.into_bump_slice()
        }
    },
    |s: BVec<'static, E>, obs: &mut Obs| {
        let bump = b_bump(&s);
        let b = s.into_boxed_slice();
        // something else is allocated (and initialised) right after the conversion: the box must keep its values
        let filler = bump.alloc_slice_fill_copy(48, 0xEEu8);
        obs.n(filler.len() as i64 - 48);
        obs.n(b.len() as i64);
        for e in b.iter() {
            obs.el(e);
        }
        drop(b);
    },
    |s: &mut BVec<'static, E>, n: usize| s.try_reserve(n).is_ok(),
    |s: &mut BVec<'static, E>, n: usize| s.try_reserve_exact(n).is_ok(),
    extend_from_slice_copy,
    |s: &mut BVec<'static, E>, a: &[E], b: &[E]| s.extend_from_slices_copy(&[a, b]),
    |s: &mut BVec<'static, E>, data: &[u8], all: bool| -> Option<i64> {
        use std::io::Write;
        let s8: &mut BVec<'static, u8> = unsafe { &mut *(s as *mut BVec<'static, E> as *mut BVec<'static, u8>) };
        Some(if all { s8.write_all(data).map(|_| data.len() as i64).unwrap_or(-1) } else { let r = s8.write(data).map(|n| n as i64).unwrap_or(-1); s8.flush().ok(); r })
    },
    |s: &mut BVec<'static, E>, other: &BVec<'static, E>, obs: &mut Obs| {
        // impls only the arena Vec and std's Vec have in common: BorrowMut, AsRef<Vec>/AsMut<Vec>, comparisons with slices and arrays
        obs.n(s.is_empty() as i64);
        {
            // take a clone apart and rebuild it from its raw parts
            let mut m = std::mem::ManuallyDrop::new(other.clone());
            let (p, l, c, b) = (m.as_mut_ptr(), m.len(), m.capacity(), b_bump(&m));
            let back = unsafe { BVec::from_raw_parts_in(p, l, c, b) };
            obs.n(back.len() as i64 * 100 + (back.capacity() >= back.len()) as i64);
            drop(back);
        }
        let d: &mut [E] = std::borrow::BorrowMut::borrow_mut(&mut *s);
        obs.n(d.len() as i64);
        let b: &[E] = std::borrow::Borrow::borrow(&*s);
        obs.n(b.len() as i64);
        let me: &BVec<'static, E> = AsRef::<BVec<'static, E>>::as_ref(&*s);
        obs.n(me.len() as i64);
        let me2: &mut BVec<'static, E> = AsMut::<BVec<'static, E>>::as_mut(&mut *s);
        obs.n(me2.len() as i64);
        let sl: &[E] = other.sl();
        obs.n((*s == sl) as i64);
        obs.n((*s != sl) as i64);
        if s.len() == 2 && E::COPY {
            let arr: [E; 2] = [s[0].dup(), s[1].dup()];
            obs.n((*s == arr) as i64);
            obs.n((*s == &arr) as i64);
            let arr3: [E; 3] = [s[0].dup(), s[1].dup(), s[1].dup()];
            obs.n((*s == arr3) as i64);
        }
    }
);

impl_veclike!(
    Vec<E>,
    |_b: &'static Bump, cap: usize| if cap == 0 { Vec::new() } else { Vec::with_capacity(cap) },
    |_s: &Vec<E>| Vec::new(),
    |_s: &Vec<E>, n: usize| Vec::with_capacity(n),
    |_s: &Vec<E>, it: Src<E>, how: u8| match how {
        0 | 1 => it.collect::<Vec<E>>(),
        2 | 3 => {
            let mut i = 0usize;
            it.map(|e| { i += 1; if how == 3 && i == 2 { None } else { Some(e) } }).collect::<Option<Vec<E>>>().unwrap_or_default()
        }
        _ => {
            let mut i = 0usize;
            it.map(|e| { i += 1; if how == 5 && i == 2 { Err(i) } else { Ok(e) } }).collect::<Result<Vec<E>, usize>>().unwrap_or_default()
        }
    },
    |_s: &Vec<E>, items: Vec<E>| {
        let mut it = items.into_iter();
        match it.len() {
            0 => vec![],
            1 => vec![it.next().unwrap()],
            2 => vec![it.next().unwrap(), it.next().unwrap()],
            _ => vec![it.next().unwrap(), it.next().unwrap(), it.next().unwrap()],
        }
    },
    |_s: &Vec<E>, e: E, n: usize| vec![e; n],
    s_drain_filter,
    |s: Vec<E>, _mutable: bool| -> &'static [E] { s.leak() },
    |s: Vec<E>, obs: &mut Obs| {
        let b = s.into_boxed_slice();
        obs.n(0);
        obs.n(b.len() as i64);
        for e in b.iter() {
            obs.el(e);
        }
        drop(b);
    },
    |s: &mut Vec<E>, n: usize| s.try_reserve(n).is_ok(),
    |s: &mut Vec<E>, n: usize| s.try_reserve_exact(n).is_ok(),
    extend_from_slice,
    |s: &mut Vec<E>, a: &[E], b: &[E]| {
        let total = a.len().checked_add(b.len()).expect("capacity overflow");
        s.reserve(total);
        s.extend_from_slice(a);
        s.extend_from_slice(b);
    },
    |s: &mut Vec<E>, data: &[u8], all: bool| -> Option<i64> {
        use std::io::Write;
        let s8: &mut Vec<u8> = unsafe { &mut *(s as *mut Vec<E> as *mut Vec<u8>) };
        Some(if all { s8.write_all(data).map(|_| data.len() as i64).unwrap_or(-1) } else { let r = s8.write(data).map(|n| n as i64).unwrap_or(-1); s8.flush().ok(); r })
    },
    |s: &mut Vec<E>, other: &Vec<E>, obs: &mut Obs| {
        // impls only the arena Vec and std's Vec have in common: BorrowMut, AsRef<Vec>/AsMut<Vec>, comparisons with slices and arrays
        obs.n(s.is_empty() as i64);
        {
            let mut m = std::mem::ManuallyDrop::new(other.clone());
            let (p, l, c) = (m.as_mut_ptr(), m.len(), m.capacity());
            let back = unsafe { Vec::from_raw_parts(p, l, c) };
            obs.n(back.len() as i64 * 100 + (back.capacity() >= back.len()) as i64);
            drop(back);
        }
        let d: &mut [E] = std::borrow::BorrowMut::borrow_mut(&mut *s);
        obs.n(d.len() as i64);
        let b: &[E] = std::borrow::Borrow::borrow(&*s);
        obs.n(b.len() as i64);
        let me: &Vec<E> = AsRef::<Vec<E>>::as_ref(&*s);
        obs.n(me.len() as i64);
        let me2: &mut Vec<E> = AsMut::<Vec<E>>::as_mut(&mut *s);
        obs.n(me2.len() as i64);
        let sl: &[E] = other.sl();
        obs.n((*s == sl) as i64);
        obs.n((*s != sl) as i64);
        if s.len() == 2 && E::COPY {
            let arr: [E; 2] = [s[0].dup(), s[1].dup()];
            obs.n((*s == arr) as i64);
            obs.n((*s == &arr) as i64);
            let arr3: [E; 3] = [s[0].dup(), s[1].dup(), s[1].dup()];
            obs.n((*s == arr3) as i64);
        }
    }
);

// ---- allocator_api2's Vec parameterised by the arena (C12: "standard collections parameterised by
// the arena behave exactly as with the global allocator")
pub type AVec<E> = allocator_api2::vec::Vec<E, &'static Bump>;

macro_rules! a_drain_filter {
    ($v:expr, $f:expr) => {{
        // allocator_api2's Vec has no drain_filter/extract_if: the model never enables this action for it
        let _ = &$f;
        let r: std::vec::IntoIter<E> = unreachable!("drain_filter is not part of allocator_api2::vec::Vec");
        #[allow(unreachable_code)]
        r
    }};
}

impl_veclike!(
    AVec<E>,
    |b: &'static Bump, cap: usize| if cap == 0 { allocator_api2::vec::Vec::new_in(b) } else { allocator_api2::vec::Vec::with_capacity_in(cap, b) },
    |s: &AVec<E>| allocator_api2::vec::Vec::new_in(*s.allocator()),
    |s: &AVec<E>, n: usize| allocator_api2::vec::Vec::with_capacity_in(n, *s.allocator()),
    |s: &AVec<E>, it: Src<E>, _how: u8| {
        let mut v = allocator_api2::vec::Vec::new_in(*s.allocator());
        v.extend(it);
        v
    },
    |s: &AVec<E>, items: Vec<E>| {
        let mut v = allocator_api2::vec::Vec::new_in(*s.allocator());
        let it = {
            let _g = Callback::enter();
            items.into_iter()
        };
        let mut it = std::mem::ManuallyDrop::new(it);
        while let Some(x) = it.next() {
            v.push(x);
        }
        let _g = Callback::enter();
        unsafe { std::mem::ManuallyDrop::drop(&mut it) };
        v
    },
    |s: &AVec<E>, e: E, n: usize| {
        let mut v = allocator_api2::vec::Vec::new_in(*s.allocator());
        v.resize(n, e);
        v
    },
    a_drain_filter,
    |s: AVec<E>, _mutable: bool| -> &'static [E] { s.leak() },
    |s: AVec<E>, obs: &mut Obs| {
        let b = s.into_boxed_slice();
        obs.n(b.len() as i64);
        for e in b.iter() {
            obs.el(e);
        }
        drop(b);
    },
    |s: &mut AVec<E>, n: usize| s.try_reserve(n).is_ok(),
    |s: &mut AVec<E>, n: usize| s.try_reserve_exact(n).is_ok(),
    extend_from_slice,
    |s: &mut AVec<E>, a: &[E], b: &[E]| {
        let total = a.len().checked_add(b.len()).expect("capacity overflow");
        s.reserve(total);
        s.extend_from_slice(a);
        s.extend_from_slice(b);
    },
    |_s: &mut AVec<E>, _data: &[u8], _all: bool| -> Option<i64> { None },
    |_s: &mut AVec<E>, _o: &AVec<E>, _obs: &mut Obs| {}
);

/// The same collection type with the global allocator: the reference for AVec ("behaves exactly as
/// with the global allocator").
pub type GVec<E> = allocator_api2::vec::Vec<E, allocator_api2::alloc::Global>;

impl_veclike!(
    GVec<E>,
    |_b: &'static Bump, cap: usize| if cap == 0 { allocator_api2::vec::Vec::new() } else { allocator_api2::vec::Vec::with_capacity(cap) },
    |_s: &GVec<E>| allocator_api2::vec::Vec::new(),
    |_s: &GVec<E>, n: usize| allocator_api2::vec::Vec::with_capacity(n),
    |_s: &GVec<E>, it: Src<E>, _how: u8| {
        let mut v = allocator_api2::vec::Vec::new();
        v.extend(it);
        v
    },
    |_s: &GVec<E>, items: Vec<E>| {
        let mut v = allocator_api2::vec::Vec::new();
        for x in items {
            v.push(x);
        }
        v
    },
    |_s: &GVec<E>, e: E, n: usize| {
        let mut v = allocator_api2::vec::Vec::new();
        v.resize(n, e);
        v
    },
    a_drain_filter,
    |s: GVec<E>, _mutable: bool| -> &'static [E] { s.leak() },
    |s: GVec<E>, obs: &mut Obs| {
        let b = s.into_boxed_slice();
        obs.n(b.len() as i64);
        for e in b.iter() {
            obs.el(e);
        }
        drop(b);
    },
    |s: &mut GVec<E>, n: usize| s.try_reserve(n).is_ok(),
    |s: &mut GVec<E>, n: usize| s.try_reserve_exact(n).is_ok(),
    extend_from_slice,
    |s: &mut GVec<E>, a: &[E], b: &[E]| {
        let total = a.len().checked_add(b.len()).expect("capacity overflow");
        s.reserve(total);
        s.extend_from_slice(a);
        s.extend_from_slice(b);
    },
    |_s: &mut GVec<E>, _data: &[u8], _all: bool| -> Option<i64> { None },
    |_s: &mut GVec<E>, _o: &GVec<E>, _obs: &mut Obs| {}
);
