//! Env: the global allocator the explorer owns (DESIGN.md §3.2).
//!
//! Requests made while an *arena-operation window* is open on the current thread (and the
//! thread is neither inside a harness callback nor panicking nor inside Env itself) are
//! **chunk requests**: they are answered from a per-arena slab according to the current
//! answer script (placement class or refusal), logged, and entered in a ledger. Everything
//! else passes through to `System`.

use std::alloc::{GlobalAlloc, Layout, System};
use std::cell::Cell;
use std::sync::atomic::{AtomicUsize, Ordering};

pub const MAX_ARENAS: usize = 3;
pub const REDZONE: usize = 64;
pub const FILL_FRESH: u8 = 0xA5;
pub const FILL_FREED: u8 = 0xDD;
pub const FILL_RED: u8 = 0xEE;
/// Alignment of every slab base (so low 21 bits of addresses are worker-independent).
pub const SLAB_ALIGN: usize = 1 << 21;

pub struct Env;

#[global_allocator]
static GLOBAL: Env = Env;

thread_local! {
    static ENV: Cell<*mut ExecEnv> = const { Cell::new(std::ptr::null_mut()) };
    static WINDOW: Cell<u32> = const { Cell::new(0) };
    static CALLBACK: Cell<u32> = const { Cell::new(0) };
    static IN_ENV: Cell<bool> = const { Cell::new(false) };
}

// One contiguous region holds every slab of every worker.
static REGION_BASE: AtomicUsize = AtomicUsize::new(0);
static REGION_END: AtomicUsize = AtomicUsize::new(0);
static REGION_NEXT: AtomicUsize = AtomicUsize::new(0);

/// Reserve the address region all slabs are carved from. Call once, before workers start.
pub fn init_region(total_bytes: usize) {
    unsafe {
        let len = total_bytes + SLAB_ALIGN;
        let p = libc::mmap(
            std::ptr::null_mut(),
            len,
            libc::PROT_READ | libc::PROT_WRITE,
            libc::MAP_PRIVATE | libc::MAP_ANONYMOUS | libc::MAP_NORESERVE,
            -1,
            0,
        );
        if p == libc::MAP_FAILED {
            eprintln!("MACHINERY: mmap of slab region failed");
            std::process::exit(2);
        }
        let base = (p as usize + SLAB_ALIGN - 1) & !(SLAB_ALIGN - 1);
        REGION_BASE.store(base, Ordering::SeqCst);
        REGION_NEXT.store(base, Ordering::SeqCst);
        REGION_END.store(base + total_bytes, Ordering::SeqCst);
    }
}

fn carve(bytes: usize) -> usize {
    let bytes = (bytes + SLAB_ALIGN - 1) & !(SLAB_ALIGN - 1);
    let a = REGION_NEXT.fetch_add(bytes, Ordering::SeqCst);
    if a + bytes > REGION_END.load(Ordering::SeqCst) {
        eprintln!("MACHINERY: slab region exhausted");
        std::process::exit(2);
    }
    a
}

#[inline]
pub fn in_region(p: usize) -> bool {
    p >= REGION_BASE.load(Ordering::Relaxed) && p < REGION_END.load(Ordering::Relaxed)
}

/// Pattern-fill a block; blocks above 1 MiB only at both ends (64 KiB each), so that huge chunks stay cheap
/// (slabs are mapped without reservation: untouched pages cost nothing).
#[inline]
unsafe fn fill_block(addr: usize, size: usize, byte: u8) {
    if size <= (1 << 20) {
        std::ptr::write_bytes(addr as *mut u8, byte, size);
    } else {
        std::ptr::write_bytes(addr as *mut u8, byte, 1 << 16);
        std::ptr::write_bytes((addr + size - (1 << 16)) as *mut u8, byte, 1 << 16);
    }
}

#[derive(Clone, Copy, Debug, PartialEq, Eq, Hash)]
pub enum Answer {
    /// grant at the least-aligned legal base (valuation == log2(align))
    Default,
    /// grant at a base whose 2-adic valuation is exactly `v` (clamped up to log2(align)); for v < 13 the
    /// base is congruent to 2^v modulo 8192
    GrantV(u8),
    Refuse,
    /// refuse this request and every later request of the same operation ("fail everything")
    RefuseRest,
    /// from this request on (within the operation) refuse every request larger than 2^k bytes and grant
    /// the others ("fail all requests above a size")
    RefuseAbove(u8),
}

impl Answer {
    pub fn code(self) -> u8 {
        match self {
            Answer::Default => 0,
            Answer::Refuse => 1,
            Answer::GrantV(v) => 2 + v,
            Answer::RefuseRest => 250,
            Answer::RefuseAbove(k) => 180 + k,
        }
    }
    pub fn from_code(c: u8) -> Answer {
        match c {
            0 => Answer::Default,
            1 => Answer::Refuse,
            250 => Answer::RefuseRest,
            c if (180..250).contains(&c) => Answer::RefuseAbove(c - 180),
            v => Answer::GrantV(v - 2),
        }
    }
}

#[derive(Clone, Copy, Debug)]
pub struct Block {
    pub arena: u8,
    pub base: usize,
    pub size: usize,
    pub align: usize,
    pub serial: u32,
    pub granted_step: u32,
    pub freed_step: Option<u32>,
}

#[derive(Clone, Copy, Debug)]
pub struct ReqLog {
    pub arena: u8,
    pub size: usize,
    pub align: usize,
    pub granted: Option<usize>,
    /// refusal forced by policy (size cap, huge alignment, refuse-all) rather than by script
    pub forced: bool,
}

#[derive(Clone, Copy, Debug)]
pub struct FreeLog {
    pub serial: u32,
    pub arena: u8,
    pub base: usize,
    pub size: usize,
}

#[derive(Clone, Debug, PartialEq, Eq)]
pub enum EnvFault {
    /// dealloc of an address Env never granted (inside a window)
    ForeignFree { addr: usize, size: usize, align: usize },
    DoubleFree { serial: u32 },
    LayoutMismatch { serial: u32, size: usize, align: usize },
    /// block of arena `owner` freed while arena `acting` was the one operating
    CrossArenaFree { serial: u32, owner: u8, acting: u8 },
    /// realloc of slab memory (bumpalo never does this)
    SlabRealloc { addr: usize },
}

pub struct Slab {
    pub base: usize,
    pub size: usize,
    pub cursor: usize,
}

#[derive(Clone, Copy, Debug)]
pub struct Policy {
    /// refuse any request above this size
    pub cap: usize,
    /// refuse everything
    pub refuse_all: bool,
}

pub struct ExecEnv {
    pub slabs: [Slab; MAX_ARENAS],
    pub cur_arena: usize,
    pub step: u32,
    pub script: [Answer; 8],
    pub script_len: usize,
    /// answer for requests beyond the script
    pub default_answer: Answer,
    pub sticky: Option<Answer>,
    /// isolation runs: a freed block's address is handed out again to the next request with the same layout
    /// (what size-class allocators do), also across executions of this process
    pub reuse_exact: bool,
    pub graveyard: Vec<(u8, usize, usize, usize)>,
    pub policy: Policy,
    pub reqs: Vec<ReqLog>,
    pub frees: Vec<FreeLog>,
    pub ledger: Vec<Block>,
    pub faults: Vec<EnvFault>,
    pub next_serial: u32,
    same_refused: (usize, usize, u32),
    /// total chunk requests of this execution
    pub total_reqs: u64,
}

pub const NONTERM_LIMIT: u32 = 4096;

impl ExecEnv {
    pub fn new(slab_bytes: usize) -> Box<ExecEnv> {
        let mk = || {
            let base = carve(slab_bytes);
            Slab { base, size: slab_bytes, cursor: 0 }
        };
        Box::new(ExecEnv {
            slabs: [mk(), mk(), mk()],
            cur_arena: 0,
            step: 0,
            script: [Answer::Default; 8],
            script_len: 0,
            default_answer: Answer::Default,
            sticky: None,
            reuse_exact: false,
            graveyard: Vec::new(),
            policy: Policy { cap: 1 << 20, refuse_all: false },
            reqs: Vec::with_capacity(64),
            frees: Vec::with_capacity(64),
            ledger: Vec::with_capacity(64),
            faults: Vec::with_capacity(8),
            next_serial: 0,
            same_refused: (0, 0, 0),
            total_reqs: 0,
        })
    }

    /// Start a fresh execution: forget everything, rewind the slabs.
    pub fn begin_execution(&mut self) {
        for s in self.slabs.iter_mut() {
            s.cursor = 0;
        }
        self.cur_arena = 0;
        self.step = 0;
        self.script_len = 0;
        self.default_answer = Answer::Default;
        self.policy = Policy { cap: 1 << 20, refuse_all: false };
        self.reqs.clear();
        self.frees.clear();
        self.ledger.clear();
        self.faults.clear();
        self.next_serial = 0;
        self.same_refused = (0, 0, 0);
        self.total_reqs = 0;
    }

    /// Start an operation: clear the per-operation logs and install the answer script.
    pub fn begin_op(&mut self, step: u32, arena: usize, script: &[Answer]) {
        self.step = step;
        self.cur_arena = arena;
        self.reqs.clear();
        self.frees.clear();
        self.script_len = script.len().min(8);
        self.script[..self.script_len].copy_from_slice(&script[..self.script_len]);
        self.same_refused = (0, 0, 0);
        self.sticky = None;
    }

    pub fn live_blocks(&self, arena: usize) -> impl Iterator<Item = &Block> {
        self.ledger.iter().filter(move |b| b.arena as usize == arena && b.freed_step.is_none())
    }

    pub fn live_count(&self, arena: usize) -> usize {
        self.live_blocks(arena).count()
    }

    pub fn live_bytes(&self, arena: usize) -> usize {
        self.live_blocks(arena).map(|b| b.size).sum()
    }

    /// The live ledger block containing `[p, p+len)` entirely, if any.
    pub fn block_containing(&self, arena: usize, p: usize, len: usize) -> Option<&Block> {
        self.live_blocks(arena).find(|b| p >= b.base && p.checked_add(len).map_or(false, |e| e <= b.base + b.size))
    }

    pub fn slab_index_of(&self, p: usize) -> Option<usize> {
        self.slabs.iter().position(|s| p >= s.base && p < s.base + s.size)
    }

    /// Check all red zones around live and freed blocks; returns the first damaged address.
    pub fn check_redzones(&self) -> Option<usize> {
        for b in &self.ledger {
            unsafe {
                let lo = (b.base - REDZONE) as *const u8;
                for i in 0..REDZONE {
                    if *lo.add(i) != FILL_RED {
                        return Some(b.base - REDZONE + i);
                    }
                }
                let hi = (b.base + b.size) as *const u8;
                for i in 0..REDZONE {
                    if *hi.add(i) != FILL_RED {
                        return Some(b.base + b.size + i);
                    }
                }
            }
        }
        None
    }

    /// Freed blocks must keep their poison (a write into freed memory is a use-after-free).
    pub fn check_freed_poison(&self) -> Option<(u32, usize)> {
        for b in &self.ledger {
            if b.freed_step.is_some() && b.size <= (1 << 16) {
                unsafe {
                    let p = b.base as *const u8;
                    for i in 0..b.size {
                        if *p.add(i) != FILL_FREED {
                            return Some((b.serial, b.base + i));
                        }
                    }
                }
            }
        }
        None
    }

    unsafe fn chunk_request(&mut self, layout: Layout) -> *mut u8 {
        let idx = self.reqs.len();
        self.total_reqs += 1;
        let arena = self.cur_arena;
        let size = layout.size();
        let align = layout.align();
        let mut ans = if idx < self.script_len { self.script[idx] } else { self.default_answer };
        // sticky answers govern the rest of the operation (an explicit later answer still wins)
        match ans {
            Answer::RefuseRest | Answer::RefuseAbove(_) => self.sticky = Some(ans),
            Answer::Default => {
                if let Some(st) = self.sticky {
                    ans = st;
                }
            }
            _ => {}
        }
        ans = match ans {
            Answer::RefuseRest => Answer::Refuse,
            Answer::RefuseAbove(k) => if size > (1usize << k) { Answer::Refuse } else { Answer::Default },
            a => a,
        };
        let mut forced = false;
        if size > self.policy.cap || align > (1 << 20) || self.policy.refuse_all {
            ans = Answer::Refuse;
            forced = true;
        }
        let log2a = align.trailing_zeros() as u8;
        let v = match ans {
            Answer::Refuse | Answer::RefuseRest | Answer::RefuseAbove(_) => None,
            Answer::Default => Some(log2a),
            Answer::GrantV(v) => Some(v.max(log2a)),
        };
        let mut granted = None;
        if let Some(v) = v {
            let slab = &mut self.slabs[arena];
            let start = slab.base + slab.cursor + REDZONE;
            let unit = 1usize << v;
            let addr = if v < 13 {
                // canonical placement: the low 13 bits of the base are exactly 2^v, so everything the
                // crate's arithmetic can see of the base (alignments up to 4096) is fixed by the answer
                let r = unit;
                ((start.saturating_sub(r) + 8191) & !8191) + r
            } else {
                let mut a = (start + unit - 1) & !(unit - 1);
                if a & unit == 0 {
                    // valuation would be > v: step to the next odd multiple of 2^v
                    a += unit;
                }
                a
            };
            let addr = if self.reuse_exact {
                match self.graveyard.iter().rposition(|g| g.0 as usize == arena && g.1 == size && g.2 == align) {
                    Some(i) => self.graveyard.remove(i).3,
                    None => {
                        // a fresh placement: forget remembered addresses it covers
                        let (lo, hi) = (addr - REDZONE, addr + size + REDZONE);
                        self.graveyard.retain(|g| g.3 + g.1 <= lo || g.3 >= hi);
                        addr
                    }
                }
            } else {
                addr
            };
            let end = addr + size + REDZONE;
            if end <= slab.base + slab.size && size > 0 {
                // fill red zones (everything between the previous block and this one, and after)
                let gap_lo = slab.base + slab.cursor;
                if addr >= gap_lo {
                    std::ptr::write_bytes(gap_lo as *mut u8, FILL_RED, addr - gap_lo);
                }
                fill_block(addr, size, FILL_FRESH);
                std::ptr::write_bytes((addr + size) as *mut u8, FILL_RED, REDZONE);
                slab.cursor = slab.cursor.max(addr + size - slab.base);
                granted = Some(addr);
                let serial = self.next_serial;
                self.next_serial += 1;
                self.ledger.push(Block {
                    arena: arena as u8,
                    base: addr,
                    size,
                    align,
                    serial,
                    granted_step: self.step,
                    freed_step: None,
                });
            } else {
                forced = true; // slab exhausted (or zero-size chunk request): refuse
            }
        }
        self.reqs.push(ReqLog { arena: arena as u8, size, align, granted, forced });
        match granted {
            Some(a) => {
                self.same_refused = (0, 0, 0);
                a as *mut u8
            }
            None => {
                if self.same_refused.0 == size && self.same_refused.1 == align {
                    self.same_refused.2 += 1;
                    if self.same_refused.2 >= NONTERM_LIMIT {
                        crate::journal::fatal(crate::journal::FATAL_NONTERM);
                    }
                } else {
                    self.same_refused = (size, align, 1);
                }
                if self.reqs.len() >= 60_000 {
                    crate::journal::fatal(crate::journal::FATAL_NONTERM);
                }
                std::ptr::null_mut()
            }
        }
    }

    unsafe fn chunk_free(&mut self, ptr: usize, layout: Layout) {
        let step = self.step;
        let acting = self.cur_arena as u8;
        match self.ledger.iter_mut().find(|b| b.base == ptr) {
            None => self.faults.push(EnvFault::ForeignFree { addr: ptr, size: layout.size(), align: layout.align() }),
            Some(b) => {
                if b.freed_step.is_some() {
                    let s = b.serial;
                    self.faults.push(EnvFault::DoubleFree { serial: s });
                    return;
                }
                if b.size != layout.size() || b.align != layout.align() {
                    let s = b.serial;
                    self.faults.push(EnvFault::LayoutMismatch { serial: s, size: layout.size(), align: layout.align() });
                }
                if b.arena != acting {
                    let (s, o) = (b.serial, b.arena);
                    self.faults.push(EnvFault::CrossArenaFree { serial: s, owner: o, acting });
                }
                b.freed_step = Some(step);
                fill_block(b.base, b.size, FILL_FREED);
                if self.reuse_exact {
                    self.graveyard.push((b.arena, b.size, b.align, b.base));
                }
                let fl = FreeLog { serial: b.serial, arena: b.arena, base: b.base, size: b.size };
                self.frees.push(fl);
            }
        }
    }
}

/// Install `env` as this thread's execution environment (null to detach).
pub fn attach(env: *mut ExecEnv) {
    ENV.with(|e| e.set(env));
}
pub fn attached() -> *mut ExecEnv {
    ENV.with(|e| e.get())
}

/// RAII: an arena-operation window.
pub struct Window(());
impl Window {
    #[inline]
    pub fn open() -> Window {
        WINDOW.with(|w| w.set(w.get() + 1));
        Window(())
    }
}
impl Drop for Window {
    #[inline]
    fn drop(&mut self) {
        WINDOW.with(|w| w.set(w.get() - 1));
    }
}
pub fn window_depth() -> u32 {
    WINDOW.with(|w| w.get())
}
/// After a caught panic the RAII guards of the unwound frames have run, but be safe.
pub fn reset_flags() {
    WINDOW.with(|w| w.set(0));
    CALLBACK.with(|w| w.set(0));
    IN_ENV.with(|w| w.set(false));
}

/// RAII: inside a harness-supplied callback (its allocations are not chunk requests).
/// A nested arena call made by the callback uses `Reenter`.
pub struct Callback(u32);
impl Callback {
    #[inline]
    pub fn enter() -> Callback {
        CALLBACK.with(|c| {
            let old = c.get();
            c.set(old + 1);
            Callback(old)
        })
    }
}
impl Drop for Callback {
    #[inline]
    fn drop(&mut self) {
        CALLBACK.with(|c| c.set(self.0));
    }
}
thread_local! {
    static GIFTS: std::cell::Cell<bool> = const { std::cell::Cell::new(false) };
}
/// RAII: the harness hands heap-owning values (std Strings) to the code under test, which drops them:
/// frees of memory that is not a chunk are forwarded to the system allocator instead of being faults.
pub struct Gifts(bool);
impl Gifts {
    pub fn enter() -> Gifts {
        GIFTS.with(|c| {
            let old = c.get();
            c.set(true);
            Gifts(old)
        })
    }
}
impl Drop for Gifts {
    fn drop(&mut self) {
        GIFTS.with(|c| c.set(self.0));
    }
}
/// RAII: a callback calls back into the arena: requests are chunk requests again.
pub struct Reenter(u32);
impl Reenter {
    #[inline]
    pub fn enter() -> Reenter {
        CALLBACK.with(|c| {
            let old = c.get();
            c.set(0);
            Reenter(old)
        })
    }
}
impl Drop for Reenter {
    #[inline]
    fn drop(&mut self) {
        CALLBACK.with(|c| c.set(self.0));
    }
}

#[inline]
fn classify_chunk() -> Option<*mut ExecEnv> {
    if WINDOW.with(|w| w.get()) == 0 {
        return None;
    }
    if CALLBACK.with(|c| c.get()) != 0 || IN_ENV.with(|c| c.get()) {
        return None;
    }
    if std::thread::panicking() {
        return None;
    }
    let e = ENV.with(|e| e.get());
    if e.is_null() {
        None
    } else {
        Some(e)
    }
}

struct InEnv;
impl InEnv {
    fn enter() -> InEnv {
        IN_ENV.with(|c| c.set(true));
        InEnv
    }
}
impl Drop for InEnv {
    fn drop(&mut self) {
        IN_ENV.with(|c| c.set(false));
    }
}

unsafe impl GlobalAlloc for Env {
    unsafe fn alloc(&self, layout: Layout) -> *mut u8 {
        if let Some(e) = classify_chunk() {
            let _g = InEnv::enter();
            return (*e).chunk_request(layout);
        }
        System.alloc(layout)
    }

    unsafe fn alloc_zeroed(&self, layout: Layout) -> *mut u8 {
        if let Some(e) = classify_chunk() {
            let _g = InEnv::enter();
            let p = (*e).chunk_request(layout);
            if !p.is_null() {
                std::ptr::write_bytes(p, 0, layout.size());
            }
            return p;
        }
        System.alloc_zeroed(layout)
    }

    unsafe fn dealloc(&self, ptr: *mut u8, layout: Layout) {
        if in_region(ptr as usize) {
            let e = ENV.with(|e| e.get());
            if !e.is_null() && !IN_ENV.with(|c| c.get()) {
                let _g = InEnv::enter();
                (*e).chunk_free(ptr as usize, layout);
            }
            return;
        }
        if GIFTS.with(|c| c.get()) {
            return System.dealloc(ptr, layout);
        }
        if let Some(e) = classify_chunk() {
            let _g = InEnv::enter();
            (*e).faults.push(EnvFault::ForeignFree { addr: ptr as usize, size: layout.size(), align: layout.align() });
            return;
        }
        System.dealloc(ptr, layout)
    }

    unsafe fn realloc(&self, ptr: *mut u8, layout: Layout, new_size: usize) -> *mut u8 {
        if in_region(ptr as usize) {
            // a chunk is resized: served as a new request (answered like any other), copy, release of the old block
            let new_layout = match Layout::from_size_align(new_size, layout.align()) {
                Ok(l) => l,
                Err(_) => return std::ptr::null_mut(),
            };
            let np = self.alloc(new_layout);
            if !np.is_null() {
                std::ptr::copy_nonoverlapping(ptr, np, layout.size().min(new_size));
                self.dealloc(ptr, layout);
            }
            return np;
        }
        System.realloc(ptr, layout, new_size)
    }
}
