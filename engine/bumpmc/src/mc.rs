//! bumpmc explorer core (DESIGN.md §3.4): level-synchronous breadth-first search in which a
//! state *is* the history reaching it; successors are computed by re-executing the extended
//! history from scratch on fresh real objects. Canonical keys deduplicate states; Env answers
//! are extra choice points explored under a deviation bound.

use crate::env::{Answer, ExecEnv};
use crate::journal;
use std::collections::{HashMap, HashSet};
use std::fmt::Debug;
use std::sync::atomic::{AtomicBool, AtomicU64, AtomicUsize, Ordering};
use std::sync::Mutex;
use std::time::Instant;

pub const MAX_DEPTH: usize = 8;
pub const MAX_DEVS_PER_STEP: usize = 3;

#[derive(Clone, Copy, Debug)]
#[repr(C)]
pub struct Step<A: Copy> {
    pub act: A,
    pub ndev: u8,
    /// (request index within the step, Answer code)
    pub devs: [(u8, u8); MAX_DEVS_PER_STEP],
}

impl<A: Copy> Step<A> {
    pub fn new(act: A) -> Self {
        Step { act, ndev: 0, devs: [(0, 0); MAX_DEVS_PER_STEP] }
    }
    /// The explicit answer script this step installs in Env.
    pub fn script(&self) -> ([Answer; 8], usize) {
        let mut s = [Answer::Default; 8];
        let mut n = 0;
        for k in 0..self.ndev as usize {
            let (i, c) = self.devs[k];
            if (i as usize) < 8 {
                s[i as usize] = Answer::from_code(c);
                n = n.max(i as usize + 1);
            }
        }
        (s, n)
    }
    pub fn with_dev(mut self, req: u8, ans: Answer) -> Self {
        let k = self.ndev as usize;
        self.devs[k] = (req, ans.code());
        self.ndev += 1;
        self
    }
}

#[derive(Clone, Copy, Debug)]
#[repr(C)]
pub struct Hist<C: Copy, A: Copy> {
    pub cfg: C,
    pub len: u8,
    pub steps: [Step<A>; MAX_DEPTH],
}

impl<C: Copy, A: Copy> Hist<C, A> {
    pub fn new(cfg: C) -> Self {
        // zeroed is a valid bit pattern for every Act enum used here (first variant is a unit
        // variant with discriminant 0) — required by the models.
        let mut h: Self = unsafe { std::mem::zeroed() };
        h.cfg = cfg;
        h
    }
    pub fn steps(&self) -> &[Step<A>] {
        &self.steps[..self.len as usize]
    }
    pub fn push(mut self, s: Step<A>) -> Self {
        self.steps[self.len as usize] = s;
        self.len += 1;
        self
    }
    pub fn devs_used(&self) -> usize {
        self.steps().iter().map(|s| s.ndev as usize).sum()
    }
    pub fn bytes(&self) -> &[u8] {
        unsafe { std::slice::from_raw_parts(self as *const Self as *const u8, std::mem::size_of::<Self>()) }
    }
    pub fn from_bytes(b: &[u8]) -> Option<Self> {
        if b.len() != std::mem::size_of::<Self>() {
            return None;
        }
        unsafe { Some(std::ptr::read_unaligned(b.as_ptr() as *const Self)) }
    }
}

#[derive(Clone, Debug)]
pub struct Violation {
    /// property number (1..=20)
    pub prop: u8,
    /// oracle clause that failed
    pub clause: &'static str,
    /// structured key (clause + discriminating predicates) used to match known findings
    pub key: String,
    pub detail: String,
    /// the crate wrote (or may have written) outside memory Env owns: the process is no longer
    /// trustworthy, exploration stops after reporting this
    pub unsafe_mem: bool,
}

pub struct RunOut<A> {
    pub key: u128,
    pub enabled: Vec<A>,
    /// number of Env answer points (chunk requests) the last step issued
    pub nreq_last: u8,
    pub terminal: bool,
    pub violations: Vec<Violation>,
    /// coverage events of the last step (bit i ↔ Model::cov_names()[i])
    pub cov: u64,
    /// a compact description of what the last step observably did (distinct-outcome counting)
    pub outcome: u64,
}

pub struct Worker {
    pub idx: usize,
    pub env: Box<ExecEnv>,
}

pub trait Model: Sync {
    type Cfg: Copy + Send + Sync + Debug;
    type Act: Copy + Send + Sync + Debug;
    fn configs(&self) -> Vec<Self::Cfg>;
    /// Execute `h` from scratch; oracles are evaluated for the last step only (earlier steps
    /// were judged when the prefix was explored).
    fn run(&self, w: &mut Worker, h: &Hist<Self::Cfg, Self::Act>, want_enabled: bool) -> RunOut<Self::Act>;
    fn cov_names(&self) -> &'static [&'static str];
    /// Alternatives to the default answer for a request (deviation menu).
    fn alt_answers(&self) -> Vec<Answer>;
    fn describe(&self, h: &Hist<Self::Cfg, Self::Act>) -> serde_json::Value;
}

#[derive(Clone)]
pub struct Params {
    pub max_depth: usize,
    pub max_devs: usize,
    pub threads: usize,
    pub budget_s: f64,
    /// resident-set cap of the engine process (exploration stops and reports a cap)
    pub max_rss_bytes: usize,
    /// which properties' violations count (bit p)
    pub prop_mask: u32,
    pub slab_bytes: usize,
    /// where to write an emergency report when a memory-unsafe violation is seen
    pub emergency_out: Option<String>,
    pub max_violations: usize,
    pub skip: HashSet<u64>,
    pub max_states_per_level: usize,
    pub keep_keys: bool,
}

#[derive(Clone, Debug)]
pub struct FoundViolation {
    pub v: Violation,
    pub hist_hex: String,
    pub described: serde_json::Value,
    pub depth: usize,
    pub devs: usize,
}

#[derive(Default, Debug)]
pub struct Report {
    pub states: u64,
    pub transitions: u64,
    pub executions: u64,
    pub depth_completed: usize,
    pub level_sizes: Vec<u64>,
    pub partial_level: Option<(usize, u64, u64)>,
    pub caps_hit: Vec<String>,
    pub cov: Vec<(String, u64)>,
    pub distinct_outcomes: u64,
    pub violations: Vec<FoundViolation>,
    pub violations_total: u64,
    pub skipped_crash: u64,
    pub samples: Vec<serde_json::Value>,
    pub wall_s: f64,
    /// every reached key (only kept when Params::keep_keys)
    pub keys: Vec<u128>,
}

fn hash64(b: &[u8]) -> u64 {
    // FNV-1a
    let mut h: u64 = 0xcbf29ce484222325;
    for &x in b {
        h ^= x as u64;
        h = h.wrapping_mul(0x100000001b3);
    }
    h
}

pub fn hist_hash<C: Copy, A: Copy>(h: &Hist<C, A>) -> u64 {
    hash64(h.bytes())
}
pub fn hist_hash_bytes(b: &[u8]) -> u64 {
    hash64(b)
}

type Order = (u32, u32, u32);

struct Shared<'a, M: Model> {
    model: &'a M,
    p: &'a Params,
    seen: &'a HashSet<u128>,
    next: Vec<Mutex<HashMap<u128, (Order, Hist<M::Cfg, M::Act>)>>>,
    last_keys: Vec<Mutex<HashSet<u128>>>,
    init_keys: Mutex<Vec<u128>>,
    samples: Mutex<Vec<Hist<M::Cfg, M::Act>>>,
    nsamples: AtomicUsize,
    transitions: AtomicU64,
    executions: AtomicU64,
    skipped: AtomicU64,
    cov: Vec<AtomicU64>,
    outcomes: Vec<Mutex<HashSet<u64>>>,
    viols: Mutex<Vec<FoundViolation>>,
    viol_keys: Mutex<HashSet<String>>,
    viol_total: AtomicU64,
    stop: AtomicBool,
    mem_stop: AtomicBool,
}

impl<'a, M: Model> Shared<'a, M> {
    fn exec(&self, w: &mut Worker, h: &Hist<M::Cfg, M::Act>, want_enabled: bool) -> Option<RunOut<M::Act>> {
        if !self.p.skip.is_empty() && self.p.skip.contains(&hist_hash(h)) {
            self.skipped.fetch_add(1, Ordering::Relaxed);
            return None;
        }
        journal::record(h);
        let out = self.model.run(w, h, want_enabled);
        self.executions.fetch_add(1, Ordering::Relaxed);
        Some(out)
    }

    /// Returns false if the state must not be expanded.
    fn handle(&self, h: &Hist<M::Cfg, M::Act>, out: &RunOut<M::Act>, order: Order, last_level: bool, is_init: bool) {
        let mut c = out.cov;
        while c != 0 {
            let b = c.trailing_zeros() as usize;
            self.cov[b].fetch_add(1, Ordering::Relaxed);
            c &= c - 1;
        }
        {
            let sh = (out.outcome as usize) % self.outcomes.len();
            let mut g = self.outcomes[sh].lock().unwrap();
            if g.len() < 200_000 {
                g.insert(out.outcome);
            }
        }
        let mut bad = false;
        for v in &out.violations {
            if v.unsafe_mem && !self.stop.swap(true, Ordering::SeqCst) {
                // report right now: the process may not survive
                if let Some(path) = &self.p.emergency_out {
                    let j = serde_json::json!({
                        "emergency": true, "states": 1, "transitions": self.transitions.load(Ordering::Relaxed), "executions": self.executions.load(Ordering::Relaxed),
                        "caps_hit": ["exploration stopped: the crate wrote outside memory it holds (process state no longer trustworthy)"],
                        "violations": out.violations.iter().map(|x| serde_json::json!({"property": format!("C{:02}", x.prop), "clause": x.clause, "key": x.key, "detail": x.detail, "hist_hex": journal::to_hex(h.bytes()), "history": self.model.describe(h), "depth": h.len, "deviations": h.devs_used()})).collect::<Vec<_>>(),
                    });
                    let _ = std::fs::write(path, serde_json::to_string(&j).unwrap());
                }
            }
            if self.p.prop_mask & (1 << v.prop) == 0 {
                continue;
            }
            bad = true;
            self.viol_total.fetch_add(1, Ordering::Relaxed);
            let mut keys = self.viol_keys.lock().unwrap();
            if keys.len() < self.p.max_violations && keys.insert(format!("{}|{}", v.prop, v.key)) {
                // spill to disk at once: a later crash of this process must not lose the verdict
                if let Some(path) = &self.p.emergency_out {
                    use std::io::Write;
                    if let Ok(mut f) = std::fs::OpenOptions::new().create(true).append(true).open(format!("{}.viol.jsonl", path)) {
                        let j = serde_json::json!({"property": format!("C{:02}", v.prop), "clause": v.clause, "key": v.key, "detail": v.detail, "hist_hex": journal::to_hex(h.bytes()), "history": self.model.describe(h), "depth": h.len, "deviations": h.devs_used()});
                        let _ = writeln!(f, "{}", j);
                    }
                }
                self.viols.lock().unwrap().push(FoundViolation {
                    v: v.clone(),
                    hist_hex: journal::to_hex(h.bytes()),
                    described: self.model.describe(h),
                    depth: h.len as usize,
                    devs: h.devs_used(),
                });
            }
        }
        // A state with a violation of *any* property is not expanded (its future is not
        // meaningful); only the masked ones are reported.
        if is_init {
            // initial states are recorded separately (they enter `seen` before the next level)
            if !bad && out.violations.is_empty() {
                self.init_keys.lock().unwrap().push(out.key);
            } else {
                let sh = (out.key as usize) % self.last_keys.len();
                self.last_keys[sh].lock().unwrap().insert(out.key);
            }
            return;
        }
        // A state with a violation is not expanded when the violation is one this check reports, or when
        // it concerns memory safety (its future is not meaningful and may crash). Violations of *other*,
        // purely book-keeping properties (reset, limit, accounting, iteration, capacity) do not stop the
        // search: their downstream effects may be exactly what this check is looking for.
        let blocking = out.violations.iter().any(|v| self.p.prop_mask & (1 << v.prop) != 0 || !matches!(v.prop, 6 | 7 | 8 | 10 | 18));
        if bad || blocking {
            // reached and judged, not expanded: still a state
            let sh = (out.key as usize) % self.last_keys.len();
            self.last_keys[sh].lock().unwrap().insert(out.key);
            return;
        }
        if out.terminal {
            // reached, judged, never expanded: counted as a state
            if !self.seen.contains(&out.key) {
                let sh = (out.key as usize) % self.last_keys.len();
                self.last_keys[sh].lock().unwrap().insert(out.key);
            }
            return;
        }
        if self.seen.contains(&out.key) {
            return;
        }
        if last_level {
            let sh = (out.key as usize) % self.last_keys.len();
            let fresh = self.last_keys[sh].lock().unwrap().insert(out.key);
            if fresh && self.nsamples.load(Ordering::Relaxed) < 3 {
                self.nsamples.fetch_add(1, Ordering::Relaxed);
                self.samples.lock().unwrap().push(*h);
            }
            return;
        }
        let sh = (out.key as usize) % self.next.len();
        let mut g = self.next[sh].lock().unwrap();
        match g.get_mut(&out.key) {
            Some(e) => {
                if order < e.0 {
                    *e = (order, *h);
                }
            }
            None => {
                g.insert(out.key, (order, *h));
            }
        }
    }

    fn expand_devs(&self, w: &mut Worker, h: Hist<M::Cfg, M::Act>, from_req: usize, order: Order, last_level: bool, alts: &[Answer]) {
        let out = match self.exec(w, &h, false) {
            Some(o) => o,
            None => return,
        };
        self.transitions.fetch_add(1, Ordering::Relaxed);
        self.handle(&h, &out, order, last_level, false);
        let last = h.len as usize - 1;
        if h.devs_used() < self.p.max_devs && (h.steps[last].ndev as usize) < MAX_DEVS_PER_STEP {
            let n = (out.nreq_last as usize).min(8);
            for i in from_req..n {
                for (k, alt) in alts.iter().enumerate() {
                    let mut h2 = h;
                    h2.steps[last] = h2.steps[last].with_dev(i as u8, *alt);
                    let o2 = (order.0, order.1, order.2 * 64 + (i as u32) * 8 + k as u32 + 1);
                    self.expand_devs(w, h2, i + 1, o2, last_level, alts);
                }
            }
        }
    }
}

/// Resident set size of this process (Linux), 0 if unknown.
pub fn rss_bytes() -> usize {
    let mut buf = [0u8; 128];
    let n = {
        use std::io::Read;
        match std::fs::File::open("/proc/self/statm") {
            Ok(mut f) => f.read(&mut buf).unwrap_or(0),
            Err(_) => 0,
        }
    };
    let txt = std::str::from_utf8(&buf[..n]).unwrap_or("");
    txt.split_whitespace().nth(1).and_then(|x| x.parse::<usize>().ok()).map_or(0, |pages| pages * 4096)
}

pub fn explore<M: Model>(model: &M, p: &Params) -> Report {
    let t0 = Instant::now();
    let mut rep = Report::default();
    let mut seen: HashSet<u128> = HashSet::new();
    let cfgs = model.configs();
    let mut frontier: Vec<Hist<M::Cfg, M::Act>> = cfgs.iter().map(|c| Hist::new(*c)).collect();
    let ncov = model.cov_names().len();
    let cov_tot: Vec<AtomicU64> = (0..ncov.max(1)).map(|_| AtomicU64::new(0)).collect();
    let mut all_outcomes: HashSet<u64> = HashSet::new();
    let alts = model.alt_answers();
    let mut workers: Vec<Worker> = (0..p.threads).map(|i| Worker { idx: i, env: ExecEnv::new(p.slab_bytes) }).collect();
    let mut level = 0usize;
    let mut initial = true;
    let mut viols_all: Vec<FoundViolation> = Vec::new();
    // keys of states that were reached but never entered `seen` (terminal, violating, last level)
    let mut extra_keys: HashSet<u128> = HashSet::new();
    let mut viol_keys_all: HashSet<String> = HashSet::new();

    while !frontier.is_empty() && level < p.max_depth.max(1) {
        let last_level = p.max_depth == 0;
        let succ_is_last = level + 1 >= p.max_depth;
        let shared = Shared {
            model,
            p,
            seen: &seen,
            next: (0..256).map(|_| Mutex::new(HashMap::new())).collect(),
            last_keys: (0..256).map(|_| Mutex::new(HashSet::new())).collect(),
            init_keys: Mutex::new(Vec::new()),
            samples: Mutex::new(Vec::new()),
            nsamples: AtomicUsize::new(0),
            transitions: AtomicU64::new(0),
            executions: AtomicU64::new(0),
            skipped: AtomicU64::new(0),
            cov: (0..ncov.max(1)).map(|_| AtomicU64::new(0)).collect(),
            outcomes: (0..64).map(|_| Mutex::new(HashSet::new())).collect(),
            viols: Mutex::new(Vec::new()),
            viol_keys: Mutex::new(viol_keys_all.clone()),
            viol_total: AtomicU64::new(0),
            stop: AtomicBool::new(false),
            mem_stop: AtomicBool::new(false),
        };
        let cursor = AtomicUsize::new(0);
        let done_items = AtomicU64::new(0);
        let fr = &frontier;
        let sh = &shared;
        let alts_ref = &alts;
        std::thread::scope(|sc| {
            for w in workers.iter_mut() {
                let cursor = &cursor;
                let done_items = &done_items;
                sc.spawn(move || {
                    journal::set_worker(w.idx);
                    journal::install_altstack();
                    crate::env::attach(&mut *w.env as *mut ExecEnv);
                    loop {
                        let i = cursor.fetch_add(1, Ordering::Relaxed);
                        if i >= fr.len() || sh.stop.load(Ordering::Relaxed) {
                            break;
                        }
                        if t0.elapsed().as_secs_f64() > sh.p.budget_s {
                            sh.stop.store(true, Ordering::Relaxed);
                            break;
                        }
                        if i % 2048 == 0 && rss_bytes() > sh.p.max_rss_bytes {
                            // memory cap: stop expanding (reported as a cap, never a verdict)
                            sh.mem_stop.store(true, Ordering::Relaxed);
                            sh.stop.store(true, Ordering::Relaxed);
                            break;
                        }
                        let h = fr[i];
                        let out0 = match sh.exec(w, &h, true) {
                            Some(o) => o,
                            None => continue,
                        };
                        if initial {
                            // pre-pass: the initial states (constructors) are judged and their keys enter
                            // `seen`; they are expanded in the next pass
                            let order = (i as u32, 0, 0);
                            let o = RunOut { key: out0.key, enabled: vec![], nreq_last: 0, terminal: true, violations: out0.violations.clone(), cov: out0.cov, outcome: out0.outcome };
                            sh.handle(&h, &o, order, false, true);
                            continue;
                        }
                        if out0.violations.iter().any(|v| sh.p.prop_mask & (1 << v.prop) != 0 || !matches!(v.prop, 6 | 7 | 8 | 10 | 18)) {
                            continue;
                        }
                        if !last_level {
                            for (ai, a) in out0.enabled.iter().enumerate() {
                                let h2 = h.push(Step::new(*a));
                                sh.expand_devs(w, h2, 0, (i as u32, ai as u32 + 1, 0), succ_is_last, alts_ref);
                            }
                        }
                        done_items.fetch_add(1, Ordering::Relaxed);
                    }
                    journal::idle();
                    crate::env::attach(std::ptr::null_mut());
                });
            }
        });
        rep.transitions += shared.transitions.load(Ordering::Relaxed);
        rep.executions += shared.executions.load(Ordering::Relaxed);
        rep.skipped_crash += shared.skipped.load(Ordering::Relaxed);
        rep.violations_total += shared.viol_total.load(Ordering::Relaxed);
        for i in 0..ncov {
            cov_tot[i].fetch_add(shared.cov[i].load(Ordering::Relaxed), Ordering::Relaxed);
        }
        for m in &shared.outcomes {
            for o in m.lock().unwrap().iter() {
                all_outcomes.insert(*o);
            }
        }
        {
            let mut v = shared.viols.lock().unwrap();
            viols_all.append(&mut v);
            viol_keys_all = shared.viol_keys.lock().unwrap().clone();
        }
        for h in shared.samples.lock().unwrap().iter().take(3) {
            if rep.samples.len() < 5 {
                rep.samples.push(model.describe(h));
            }
        }
        let stopped = shared.stop.load(Ordering::Relaxed);
        let mem_stopped = shared.mem_stop.load(Ordering::Relaxed);
        let n_last: u64 = shared.last_keys.iter().map(|m| m.lock().unwrap().len() as u64).sum();
        for mset in shared.last_keys.iter() {
            for k in mset.lock().unwrap().iter() {
                extra_keys.insert(*k);
            }
        }
        let init_keys: Vec<u128> = shared.init_keys.lock().unwrap().clone();
        // collect next frontier deterministically
        let mut nxt: Vec<(Order, u128, Hist<M::Cfg, M::Act>)> = Vec::new();
        for m in shared.next.iter() {
            for (k, (o, h)) in m.lock().unwrap().drain() {
                nxt.push((o, k, h));
            }
        }
        drop(shared);
        if initial {
            let mut d = 0u64;
            for k in init_keys.iter() {
                if seen.insert(*k) {
                    d += 1;
                }
            }
            rep.level_sizes.push(d);
            initial = false;
            continue;
        }
        if stopped {
            rep.partial_level = Some((level + 1, done_items.load(Ordering::Relaxed), frontier.len() as u64));
            if mem_stopped {
                rep.caps_hit.push(format!("memory cap {} MiB hit while expanding level {} ({} of {} states expanded)", p.max_rss_bytes >> 20, level, done_items.load(Ordering::Relaxed), frontier.len()));
            } else if t0.elapsed().as_secs_f64() > p.budget_s {
                rep.caps_hit.push(format!("wall budget {}s hit while expanding level {} ({} of {} states expanded)", p.budget_s, level, done_items.load(Ordering::Relaxed), frontier.len()));
            } else {
                rep.caps_hit.push(format!("exploration stopped at level {} ({} of {} states expanded): the crate wrote outside memory it holds, so this process is no longer trustworthy", level, done_items.load(Ordering::Relaxed), frontier.len()));
            }
            // states discovered so far still count as visited
            for (_, k, _) in nxt.iter() {
                extra_keys.insert(*k);
            }
            break;
        }
        nxt.sort_by(|a, b| a.0.cmp(&b.0).then(a.1.cmp(&b.1)));
        for (_, k, _) in nxt.iter() {
            seen.insert(*k);
        }
        level += 1;
        rep.depth_completed = level.min(p.max_depth);
        rep.level_sizes.push(nxt.len() as u64 + n_last);
        if rep.samples.len() < 3 {
            if let Some(x) = nxt.get(nxt.len() / 2) {
                rep.samples.push(model.describe(&x.2));
            }
        }
        if nxt.len() > p.max_states_per_level {
            rep.caps_hit.push(format!("level {} had {} states; only the first {} (deterministic order) are expanded", level, nxt.len(), p.max_states_per_level));
            nxt.truncate(p.max_states_per_level);
        }
        frontier = nxt.into_iter().map(|x| x.2).collect();
        initial = false;
    }
    if rep.samples.is_empty() {
        if let Some(c) = cfgs.first() {
            rep.samples.push(model.describe(&Hist::new(*c)));
        }
    }
    rep.states = seen.len() as u64 + extra_keys.iter().filter(|k| !seen.contains(k)).count() as u64;
    if p.keep_keys {
        let mut all: HashSet<u128> = seen.clone();
        all.extend(extra_keys.iter().copied());
        rep.keys = all.into_iter().collect();
    }
    rep.cov = model.cov_names().iter().enumerate().map(|(i, n)| (n.to_string(), cov_tot[i].load(Ordering::Relaxed))).collect();
    rep.distinct_outcomes = all_outcomes.len() as u64;
    viols_all.sort_by(|a, b| (a.devs, a.depth, &a.hist_hex).cmp(&(b.devs, b.depth, &b.hist_hex)));
    rep.violations = viols_all;
    rep.wall_s = t0.elapsed().as_secs_f64();
    rep
}
