//! bumpmc — bounded-exhaustive explorer for bumpalo (see /verif/DESIGN.md). Library part: the
//! controlled global allocator, the explorer and all models; `main.rs` is the command line.

pub mod arena;
pub mod boxmodel;
pub mod coll;
pub mod crossarena;
pub mod decoders;
pub mod retry;
pub mod env;
pub mod grid;
pub mod overflow;
pub mod pair;
pub mod journal;
pub mod mc;
pub mod util;
