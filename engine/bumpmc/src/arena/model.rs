//! ArenaModel: configurations, state-dependent alphabets (per property profile), and the
//! `Model` implementation that re-executes histories on real arenas.

use super::ops::*;
use super::types::*;
use super::world::{cov, Pub, World};
use crate::env::Answer;
use crate::mc::{Hist, Model, RunOut, Step, Violation, Worker};
use crate::util::{arena_op, drops_clear, PanicClass};
use bumpalo::Bump;

#[derive(Clone, Copy, Debug, PartialEq, Eq, Hash)]
#[repr(u8)]
pub enum Ctor {
    New,
    TryNew,
    WithCap,
    TryWithCap,
    MinAlign,
    MinAlignCap,
    TryMinAlignCap,
    Default,
}

#[derive(Clone, Copy, Debug)]
#[repr(C)]
pub struct Cfg {
    pub m: u8,
    pub ctor: Ctor,
    pub cap: usize,
    /// Env answer code for the constructor's chunk request
    pub ans: u8,
    /// drop the arena on another thread at the end
    pub drop_on_thread: bool,
    /// uniform sub-model: log2 of the one alignment used (C10 exactness)
    pub aux: u8,
}

#[derive(Clone, Copy, Debug, PartialEq, Eq)]
pub enum Profile {
    /// C01, C02, C04, C08, C10: all allocation flavours, allocator API, reset
    Core,
    /// C03: ledger; constructors with capacity, refusals, thread hand-over
    Ledger,
    /// C06: reset probes
    Reset,
    /// C07: limit-centred alphabet
    Limit,
    /// C09: refusal scripts, fallible/infallible twins, huge sizes; final action probes
    Fallible,
    /// C11: failed initialisers
    Init,
    /// C12: Allocator trait
    AllocApi,
    /// C18(b): capacity probes at every state
    CapProbe,
    /// layer A: every (size, align) at every finger offset of 64/192/448-byte chunks (C01, C04)
    LayerA,
    /// C10 exactness: uniform allocations only
    Uniform,
    /// long histories over a narrow alphabet (fill a chunk, cross it, reset, shrink/grow/free the last block,
    /// fail an initialiser, move the limit): depth where the rich profiles cannot go
    Deep,
    /// Deep plus hand-overs of the arena to another thread (C20)
    DeepHop,
    /// large sizes: chunks of 4 KiB .. 1 MiB, requests of 64 KiB and more, alignments of 4096 and 8192,
    /// blocks of 70 000 bytes grown / shrunk / freed, limits in the hundreds of kilobytes
    Scale,
    /// C16: panicking callbacks inside arena methods
    Panics,
    /// allocator-API sweep: every finger offset x block size/alignment x shrink/grow to every size and
    /// alignment x deallocate x follow-up allocation (C01, C02, C04, C12)
    ApiSweep,
}

pub struct ArenaModel {
    pub profile: Profile,
    pub thorough: bool,
    pub min_aligns: Vec<u8>,
    pub max_depth: usize,
}

fn from_b1<const M: usize>(b: Bump<1>) -> Bump<M> {
    assert!(M == 1);
    unsafe {
        let r = std::ptr::read(&b as *const Bump<1> as *const Bump<M>);
        std::mem::forget(b);
        r
    }
}

/// Ok(Some) constructed, Ok(None) fallible constructor returned Err, Err(panic).
pub fn construct<const M: usize>(cfg: &Cfg) -> Result<Option<Bump<M>>, PanicClass> {
    let r = std::panic::catch_unwind(|| -> Option<Bump<M>> {
        match cfg.ctor {
            Ctor::New => Some(from_b1(Bump::new())),
            Ctor::TryNew => Bump::try_new().ok().map(from_b1),
            Ctor::WithCap => Some(from_b1(Bump::with_capacity(cfg.cap))),
            Ctor::TryWithCap => Bump::try_with_capacity(cfg.cap).ok().map(from_b1),
            Ctor::MinAlign => Some(Bump::<M>::with_min_align()),
            Ctor::MinAlignCap => Some(Bump::<M>::with_min_align_and_capacity(cfg.cap)),
            Ctor::TryMinAlignCap => Bump::<M>::try_with_min_align_and_capacity(cfg.cap).ok(),
            Ctor::Default => Some(Bump::<M>::default()),
        }
    });
    match r {
        Ok(b) => Ok(b),
        Err(p) => Err(crate::util::classify_panic(&*p)),
    }
}

impl ArenaModel {
    fn c09_probe(&self) -> bool {
        self.profile == Profile::Fallible
    }

    fn run_m<const M: usize>(&self, w: &mut Worker, h: &Hist<Cfg, Act>, want_enabled: bool, trace: bool) -> (RunOut<Act>, Vec<String>) {
        let envp: *mut crate::env::ExecEnv = &mut *w.env;
        unsafe { (*envp).begin_execution() };
        if self.profile == Profile::Scale {
            // chunks up to a quarter of the slab are served
            unsafe { (*envp).policy.cap = (*envp).slabs[0].size / 4 };
        }
        if crate::util::static_dirty() {
            crate::util::restore_static();
        }
        drops_clear();
        if self.profile == Profile::Panics {
            crate::coll::elem::reset_ledgers();
        }
        let mut world: World<M> = World::new(envp, 0);
        if trace {
            world.trace = Some(Vec::new());
        }
        let cfg = h.cfg;
        let n = h.len as usize;
        // ---- construction (step 0)
        world.judge = n == 0;
        let script = [Answer::from_code(cfg.ans)];
        let r = arena_op(envp, 0, 0, &script, || construct::<M>(&cfg));
        let ctor_fallible = matches!(cfg.ctor, Ctor::TryNew | Ctor::TryWithCap | Ctor::TryMinAlignCap);
        let built: Option<Bump<M>> = match r {
            Ok(Ok(Some(b))) => Some(b),
            Ok(Ok(None)) => {
                world.cov |= cov::CTOR_FAIL;
                if !ctor_fallible {
                    world.v(9, "ctor_impossible_outcome", "ctor_impossible_outcome".into(), "infallible constructor returned nothing".into());
                }
                None
            }
            Ok(Err(p)) | Err(p) => {
                world.cov |= cov::CTOR_FAIL;
                if ctor_fallible {
                    world.v(9, "fallible_panicked", format!("fallible_panicked/ctor/{}", panic_kind(&p)), format!("{:?} panicked: {:?}", cfg.ctor, p));
                } else if !matches!(p, PanicClass::Oom) {
                    world.v(9, "infallible_misbehaved", format!("infallible_misbehaved/ctor/{}", panic_kind(&p)), format!("{:?}: unexpected panic {:?}", cfg.ctor, p));
                }
                None
            }
        };
        world.nreq_last = unsafe { (*envp).reqs.len().min(255) as u8 };
        world.tr(|| format!("construct {:?} -> {}", cfg, if built.is_some() { "arena" } else { "failed" }));
        let mut out = RunOut { key: 0, enabled: Vec::new(), nreq_last: 0, terminal: false, violations: Vec::new(), cov: 0, outcome: 0 };
        let bump = match built {
            Some(b) => b,
            None => {
                // failed construction must hold no memory
                let left = unsafe { (*envp).live_count(0) };
                if left != 0 {
                    world.v(3, "failed_ctor_leaks", "failed_ctor_leaks".into(), format!("constructor failed but {left} block(s) stay allocated"));
                    world.v(9, "failure_changed_held_memory", "failure_changed_held_memory/ctor".into(), format!("constructor failed but {left} block(s) stay allocated"));
                }
                out.terminal = true;
                out.violations = world.viol;
                out.cov = world.cov;
                out.key = 0xdead;
                return (out, world.trace.unwrap_or_default());
            }
        };
        world.bump = Some(bump);
        {
            let zero = Pub { cap: 0, ab: 0, abm: 0, limit: None, nchunks: 0, chunks: [(0, 0); super::world::MAX_CHUNKS_OBS], iter_ok: true };
            // constructor: judged by the generic oracles against an empty pre-state
            let post = world.generic_post("constructor", &zero, (0, 0), false);
            if world.b().min_align() != M {
                world.v(4, "min_align_misreported", "min_align_misreported".into(), format!("min_align() = {} for Bump<{}>", world.b().min_align(), M));
            }
            if post.limit.is_some() {
                world.v(7, "fresh_arena_has_limit", "fresh_arena_has_limit".into(), "a new arena reports an allocation limit".into());
            }
            // C18(a) in its simplest form: the requested capacity is available
            if matches!(cfg.ctor, Ctor::WithCap | Ctor::TryWithCap | Ctor::MinAlignCap | Ctor::TryMinAlignCap) && post.cap < cfg.cap {
                world.v(18, "capacity_not_honoured", "capacity_not_honoured/ctor".into(), format!("{:?}({}) gives chunk_capacity() = {}", cfg.ctor, cfg.cap, post.cap));
            }
            let k = world.key(&post);
            world.keys.push(k);
            world.outcome = k as u64;
        }
        // ---- steps
        let mut last_pub_limit_blip: Option<u128> = None;
        for (i, s) in h.steps().iter().enumerate() {
            if !world.viol.is_empty() && i < n {
                // a violation in the prefix (cannot happen for explored prefixes)
            }
            world.step = i as u32 + 1;
            world.judge = i + 1 == n;
            world.cov = 0;
            world.nreq_last = 0;
            let (sc, sn) = s.script();
            let script = &sc[..sn];
            let probe = self.c09_probe() && world.judge;
            match s.act {
                Act::Nop => {}
                Act::Layout { fallible, size, al } => world.do_layout(fallible, size, al, script, probe),
                Act::Typed { m, ty } => world.do_typed(m, ty, script, probe),
                Act::TryWith { fallible, ty, ok, inner, probe: p, esz } => world.do_try_with(fallible, ty, ok, inner, p, esz, script),
                Act::Slice { m, el, len, fail_at, inner } => world.do_slice(m, el, len, fail_at, inner, script, probe),
                Act::Str { fallible, len } => world.do_str(fallible, len, script, probe),
                Act::Allocate { size, al } => world.do_allocate(size, al, script),
                Act::Dealloc { h } => world.do_dealloc(h),
                Act::Grow { h, new_size, al, zeroed } => world.do_grow(h, new_size, al, zeroed, script),
                Act::Shrink { h, new_size, al } => world.do_shrink(h, new_size, al, script),
                Act::Reset { probe } => world.do_reset(probe),
                Act::SetLimit { some, val } => {
                    let before = world.keys.last().copied();
                    let had_limit = world.bump.as_ref().unwrap().allocation_limit().is_some();
                    world.do_set_limit(some, val);
                    if some && !had_limit {
                        last_pub_limit_blip = before;
                    } else if !some {
                        if let Some(k0) = last_pub_limit_blip.take() {
                            // Some(L) directly followed by None on a limit-less arena
                            if i >= 1 && matches!(h.steps[i - 1].act, Act::SetLimit { some: true, .. }) && world.judge && world.keys.last() != Some(&k0) {
                                world.v(7, "limit_blip_changed_state", "limit_blip_changed_state".into(), "set_allocation_limit(Some(L)); set_allocation_limit(None) changed the state of a limit-less arena".into());
                            }
                        }
                    }
                    if !matches!(s.act, Act::SetLimit { some: true, .. }) {
                        last_pub_limit_blip = None;
                    }
                }
                Act::ThreadHop => world.do_thread_hop(),
                Act::CapProbe => world.do_cap_probe(),
                Act::PanicCb { which, len, at } => world.do_panic_cb(which, len, at),
                Act::UniTryWith { al, ok, fallible } => world.do_uni_try_with(al, ok, fallible, script),
                Act::UniSliceFail { al, len, fail_at } => world.do_uni_slice_fail(al, len, fail_at, script),
            }
            if self.profile == Profile::Uniform {
                world.check_exact(1usize << cfg.aux);
            }
            if !matches!(s.act, Act::SetLimit { .. }) {
                last_pub_limit_blip = None;
            }
            if world.judge && !world.terminal {
                world.precursor_probe(super::ops::act_what(&s.act));
            }
            // the harness writes through every reference it holds, after every operation
            for j in 0..world.live.len() {
                world.live[j].epoch = world.step;
                world.fill(j);
            }
            if world.terminal {
                break;
            }
        }
        if self.profile == Profile::LayerA && world.live.len() >= 2 {
            world.terminal = true;
        }
        out.nreq_last = world.nreq_last;
        out.cov = world.cov;
        out.outcome = world.outcome;
        out.terminal = world.terminal;
        // the alphabet depends on the phase (inner levels vs. last level; for the sweeps on the exact
        // depth), so the phase is part of the state: a state first seen early is expanded again with the
        // last-level alphabet when it is reached at depth max-1
        let phase: u128 = match self.profile {
            Profile::ApiSweep | Profile::LayerA => 1 + n as u128,
            _ => (n + 1 >= self.max_depth) as u128,
        };
        out.key = *world.keys.last().unwrap() ^ (phase.wrapping_mul(0x9e3779b97f4a7c15f39cc0605cedc835));
        if want_enabled && !world.terminal {
            let p = world.observe();
            out.enabled = self.enabled(&world, &p, n, cfg.aux);
        }
        // ---- every execution ends by dropping the arena (C03: drop at any point)
        world.judge = true;
        world.drop_arena(cfg.drop_on_thread);
        if crate::util::static_dirty() {
            crate::util::restore_static();
            world.v_unsafe(20, "shared_static_modified", "shared_static_modified".into(), "the crate's shared static empty chunk holds different bytes after this execution (state shared by all arenas was changed)".into());
            world.v(1, "write_outside_block", "write_outside_block/shared_static".into(), "the crate's shared static empty chunk was overwritten".into());
        }
        out.violations = std::mem::take(&mut world.viol);
        if matches!(self.profile, Profile::AllocApi | Profile::ApiSweep) {
            // through the Allocator trait, "does not overlap any other live block" and "deallocate never
            // affects the others" are part of C12's contract as well as of C01/C02
            let mirrored: Vec<Violation> = out.violations.iter().filter(|v| v.prop == 1 || (v.prop == 2 && v.clause == "live_block_changed"))
                .map(|v| Violation { prop: 12, clause: if v.prop == 2 { "other_block_affected" } else if v.clause.starts_with("overlaps") { "block_overlaps_live_block" } else { "block_outside_arena_memory" }, key: format!("{}/{}", if v.prop == 2 { "other_block_affected" } else if v.clause.starts_with("overlaps") { "block_overlaps_live_block" } else { "block_outside_arena_memory" }, v.key.split('/').skip(1).collect::<Vec<_>>().join("/")), detail: v.detail.clone(), unsafe_mem: v.unsafe_mem }).collect();
            out.violations.extend(mirrored);
        }
        (out, world.trace.take().unwrap_or_default())
    }

    /// State-dependent alphabet.
    fn enabled<const M: usize>(&self, w: &World<M>, p: &Pub, depth: usize, w_cfg_aux: u8) -> Vec<Act> {
        let mut a: Vec<Act> = Vec::with_capacity(128);
        let cap = p.cap;
        let last = depth + 1 >= self.max_depth;
        let t = self.thorough;
        let nraw = w.live.iter().filter(|b| b.raw).count();
        let raw_sz = |h: u8| w.handle(h).map(|i| (w.live[i].size, w.live[i].align));
        // what the arena really holds for allocation (ledger truth, not its own accounting)
        let held_usable: usize = w.e().live_blocks(w.arena).map(|b| b.size.saturating_sub(w.k)).sum();
        let lay = |a: &mut Vec<Act>, fallible: bool, sizes: &[usize], als: &[u8]| {
            for &s in sizes {
                for &al in als {
                    a.push(Act::Layout { fallible, size: s, al });
                }
            }
        };
        let mut rel: Vec<usize> = vec![cap, cap + 1];
        if cap > 0 {
            rel.push(cap - 1);
        }
        match self.profile {
            Profile::Core => {
                let sizes: &[usize] = if t { &[0, 1, 3, 8, 17, 48] } else { &[0, 1, 8, 17] };
                let als: &[u8] = if t { &[0, 1, 3, 4, 5, 6] } else { &[0, 3, 4, 6] };
                lay(&mut a, true, sizes, als);
                lay(&mut a, true, &rel, &[0, 4]);
                lay(&mut a, false, &[8, cap + 1], &[0]);
                a.push(Act::Layout { fallible: true, size: 449, al: 0 });
                a.push(Act::Layout { fallible: true, size: 100, al: 12 });
                self.allocator_acts(&mut a, nraw, &raw_sz, cap, t);
                a.push(Act::Reset { probe: false });
                a.push(Act::SetLimit { some: true, val: held_usable });
                a.push(Act::SetLimit { some: false, val: 0 });
                // typed / slice / str flavours: a few inside, all at the last level
                if last {
                    for m in ALL_TM {
                        for ty in ALL_TY {
                            a.push(Act::Typed { m, ty });
                        }
                    }
                    for m in ALL_SM {
                        for (el, len) in [(El::U8, 5usize), (El::U64, 3), (El::B3, 2), (El::Unit, 4), (El::U16, 0), (El::U128, 1), (El::U8, cap + 1), (El::U64, cap / 8)] {
                            let init = matches!(m, SM::InitTryFillWith | SM::InitTryFillIter);
                            a.push(Act::Slice { m, el, len, fail_at: NO_FAIL, inner: Inner::Nothing });
                            if init && len > 0 {
                                a.push(Act::Slice { m, el, len, fail_at: 0, inner: Inner::Nothing });
                                a.push(Act::Slice { m, el, len, fail_at: (len - 1).min(200) as u8, inner: Inner::Nothing });
                            }
                        }
                    }
                    a.push(Act::Slice { m: SM::InitTryFillWith, el: El::U64, len: 3, fail_at: 1, inner: Inner::AllocKeep });
                    a.push(Act::Slice { m: SM::InitTryFillWith, el: El::U8, len: 5, fail_at: 2, inner: Inner::AllocRelease });
                    for len in [0usize, 1, 7, cap, cap + 1] {
                        a.push(Act::Str { fallible: false, len });
                        a.push(Act::Str { fallible: true, len });
                    }
                    for ty in [Ty::U8, Ty::U64, Ty::B449, Ty::A64, Ty::Unit] {
                        for ok in [true, false] {
                            for inner in ALL_INNER {
                                a.push(Act::TryWith { fallible: false, ty, ok, inner, probe: false, esz: 0 });
                                a.push(Act::TryWith { fallible: true, ty, ok, inner, probe: false, esz: 0 });
                            }
                        }
                    }
                } else {
                    a.push(Act::Typed { m: TM::Alloc, ty: Ty::U64 });
                    a.push(Act::Typed { m: TM::TryAllocWith, ty: Ty::B3 });
                    a.push(Act::Typed { m: TM::Alloc, ty: Ty::A32 });
                    a.push(Act::Typed { m: TM::Alloc, ty: Ty::Z64 });
                    a.push(Act::Slice { m: SM::Copy, el: El::U8, len: 5, fail_at: NO_FAIL, inner: Inner::Nothing });
                    a.push(Act::Slice { m: SM::InitTryFillWith, el: El::U64, len: 3, fail_at: 1, inner: Inner::Nothing });
                    a.push(Act::Slice { m: SM::FillIter, el: El::U16, len: 3, fail_at: NO_FAIL, inner: Inner::Nothing });
                    a.push(Act::Str { fallible: false, len: 7 });
                    a.push(Act::TryWith { fallible: false, ty: Ty::U64, ok: false, inner: Inner::Nothing, probe: false, esz: 0 });
                    a.push(Act::TryWith { fallible: false, ty: Ty::U64, ok: false, inner: Inner::AllocKeep, probe: false, esz: 0 });
                    a.push(Act::TryWith { fallible: true, ty: Ty::B449, ok: false, inner: Inner::Nothing, probe: false, esz: 0 });
                    a.push(Act::TryWith { fallible: false, ty: Ty::U8, ok: true, inner: Inner::ForceChunk, probe: false, esz: 0 });
                }
            }
            Profile::Ledger => {
                lay(&mut a, true, &[1, 8, cap + 1, 449, 5000, 70_000], &[0, 6]);
                lay(&mut a, false, &[cap + 1, 2 << 20], &[0]);
                a.push(Act::Typed { m: TM::Alloc, ty: Ty::B5000 });
                a.push(Act::Typed { m: TM::TryAlloc, ty: Ty::A4096 });
                a.push(Act::TryWith { fallible: false, ty: Ty::B449, ok: false, inner: Inner::Nothing, probe: false, esz: 0 });
                a.push(Act::TryWith { fallible: true, ty: Ty::B449, ok: false, inner: Inner::ForceChunk, probe: false, esz: 0 });
                a.push(Act::Slice { m: SM::InitTryFillWith, el: El::U64, len: cap / 8 + 1, fail_at: 0, inner: Inner::Nothing });
                self.allocator_acts(&mut a, nraw, &raw_sz, cap, false);
                a.push(Act::Reset { probe: false });
                a.push(Act::SetLimit { some: true, val: held_usable });
                a.push(Act::SetLimit { some: true, val: held_usable + 1000 });
                a.push(Act::SetLimit { some: false, val: 0 });
                if t || last {
                    a.push(Act::ThreadHop);
                }
            }
            Profile::Reset => {
                lay(&mut a, true, &[0, 1, 8, cap, cap + 1, 449, 5000], &[0, 4, 6]);
                a.push(Act::Typed { m: TM::Alloc, ty: Ty::U64 });
                a.push(Act::Typed { m: TM::Alloc, ty: Ty::A4096 });
                a.push(Act::TryWith { fallible: false, ty: Ty::U64, ok: false, inner: Inner::Nothing, probe: false, esz: 0 });
                a.push(Act::TryWith { fallible: false, ty: Ty::B449, ok: false, inner: Inner::Nothing, probe: false, esz: 0 });
                a.push(Act::TryWith { fallible: false, ty: Ty::B449, ok: false, inner: Inner::AllocKeep, probe: false, esz: 0 });
                a.push(Act::Slice { m: SM::InitTryFillWith, el: El::U64, len: 3, fail_at: 1, inner: Inner::Nothing });
                self.allocator_acts(&mut a, nraw, &raw_sz, cap, false);
                a.push(Act::Reset { probe: false });
                a.push(Act::Reset { probe: true });
                a.push(Act::SetLimit { some: true, val: 0 });
                a.push(Act::SetLimit { some: true, val: held_usable });
                a.push(Act::SetLimit { some: true, val: held_usable + 2000 });
                a.push(Act::SetLimit { some: false, val: 0 });
            }
            Profile::Limit => {
                lay(&mut a, true, &[1, cap, cap + 1, 449, 5000], &[0, 4]);
                lay(&mut a, false, &[cap + 1], &[0]);
                lay(&mut a, true, &[0, 8], &[5]);
                lay(&mut a, true, &[100], &[7, 12]);
                a.push(Act::Typed { m: TM::Alloc, ty: Ty::U64 });
                a.push(Act::Typed { m: TM::TryAlloc, ty: Ty::B449 });
                a.push(Act::Reset { probe: false });
                // limits relative to what is held and to the size the next chunk would have
                let next = (held_usable.max(448)) * 2;
                let mut lims = vec![0usize, 63, 64, 65, 192, 447, 448, 449, 960, 1 << 20];
                for d in [held_usable.wrapping_sub(1), held_usable, held_usable + 1, held_usable + 447, held_usable + 448, held_usable + 449, held_usable + next - 1, held_usable + next, held_usable + cap] {
                    if d < usize::MAX / 2 {
                        lims.push(d);
                    }
                }
                lims.sort();
                lims.dedup();
                for l in lims {
                    a.push(Act::SetLimit { some: true, val: l });
                }
                a.push(Act::SetLimit { some: false, val: 0 });
                if nraw > 0 {
                    a.push(Act::Dealloc { h: 0 });
                }
            }
            Profile::Fallible => {
                let big: [usize; 6] = [1 << 20, (1 << 20) + 1, isize::MAX as usize - 4095, isize::MAX as usize - 15, isize::MAX as usize, usize::MAX / 2 + 1];
                if last {
                    for f in [true, false] {
                        lay(&mut a, f, &[0, 1, 8, 17, 449, 4033, 70_000], &[0, 3, 4, 5, 6, 12]);
                        lay(&mut a, f, &rel, &[0, 4, 6]);
                        lay(&mut a, f, &big, &[0, 4, 12]);
                        lay(&mut a, f, &[0, 1, 8, 449], &[20, 21, 40, 62]);
                    }
                    for m in ALL_TM {
                        for ty in ALL_TY {
                            a.push(Act::Typed { m, ty });
                        }
                    }
                    for m in ALL_SM {
                        if matches!(m, SM::InitTryFillWith | SM::InitTryFillIter) {
                            continue;
                        }
                        for (el, len) in [(El::U8, cap + 1), (El::U64, cap / 8 + 1), (El::U64, 3), (El::Unit, 4), (El::U128, 300), (El::U8, 2 << 20)] {
                            a.push(Act::Slice { m, el, len, fail_at: NO_FAIL, inner: Inner::Nothing });
                        }
                    }
                    for m in [SM::FillWith, SM::TryFillWith, SM::FillCopy, SM::TryFillCopy, SM::FillClone, SM::TryFillClone, SM::FillDefault, SM::TryFillDefault, SM::FillIter, SM::TryFillIter] {
                        for (el, len) in [(El::U64, isize::MAX as usize / 8 + 1), (El::U16, usize::MAX), (El::U128, usize::MAX / 16), (El::B3, isize::MAX as usize / 3 + 1)] {
                            a.push(Act::Slice { m, el, len, fail_at: NO_FAIL, inner: Inner::Nothing });
                        }
                    }
                    for len in [1usize, cap + 1, 5000] {
                        a.push(Act::Str { fallible: true, len });
                        a.push(Act::Str { fallible: false, len });
                    }
                    for ty in [Ty::U64, Ty::B449, Ty::B5000, Ty::A4096] {
                        for f in [true, false] {
                            a.push(Act::TryWith { fallible: f, ty, ok: true, inner: Inner::Nothing, probe: false, esz: 0 });
                            a.push(Act::TryWith { fallible: f, ty, ok: false, inner: Inner::Nothing, probe: false, esz: 0 });
                        }
                    }
                    a.push(Act::Allocate { size: cap + 1, al: 0 });
                    a.push(Act::Allocate { size: isize::MAX as usize, al: 0 });
                    if nraw > 0 {
                        let (s0, a0) = raw_sz(0).unwrap();
                        for z in [false, true] {
                            a.push(Act::Grow { h: 0, new_size: s0 + cap + 1, al: crate::util::log2(a0), zeroed: z });
                            a.push(Act::Grow { h: 0, new_size: isize::MAX as usize - 4095, al: crate::util::log2(a0), zeroed: z });
                        }
                        a.push(Act::Shrink { h: 0, new_size: s0 / 2, al: 6 });
                    }
                } else {
                    lay(&mut a, true, &[0, 8, cap, cap + 1, 449, 5000], &[0, 4, 6]);
                    lay(&mut a, true, &[0, 8], &[12]);
                    a.push(Act::Reset { probe: false });
                    for l in [0usize, 64, 100, held_usable, held_usable + 448, held_usable + 1000] {
                        a.push(Act::SetLimit { some: true, val: l });
                    }
                    a.push(Act::SetLimit { some: false, val: 0 });
                    if nraw > 0 {
                        a.push(Act::Dealloc { h: 0 });
                    }
                }
            }
            Profile::Init => {
                if last {
                    let tys: &[Ty] = if t { &ALL_TY } else { &[Ty::U8, Ty::U64, Ty::B3, Ty::W256, Ty::B449, Ty::B5000, Ty::A64, Ty::Unit, Ty::Z64] };
                    for &ty in tys {
                        for f in [true, false] {
                            for inner in ALL_INNER {
                                a.push(Act::TryWith { fallible: f, ty, ok: false, inner, probe: true, esz: 0 });
                                a.push(Act::TryWith { fallible: f, ty, ok: true, inner, probe: false, esz: 0 });
                            }
                        }
                    }
                    // error types much bigger than the value (the reserved Result slot is mostly error)
                    for (ty, esz) in [(Ty::U8, 1u8), (Ty::U8, 2), (Ty::U64, 1), (Ty::U64, 2), (Ty::Unit, 1), (Ty::U8, 3), (Ty::B449, 2)] {
                        for f in [true, false] {
                            for inner in [Inner::Nothing, Inner::AllocKeep] {
                                a.push(Act::TryWith { fallible: f, ty, ok: false, inner, probe: true, esz });
                            }
                            a.push(Act::TryWith { fallible: f, ty, ok: true, inner: Inner::Nothing, probe: false, esz });
                        }
                    }
                    for (el, len) in [(El::U8, 5usize), (El::U64, 3), (El::U8, cap.saturating_sub(30)), (El::U8, cap + 1)] {
                        for inner in [Inner::AllocKeep, Inner::AllocRelease] {
                            for fail_at in [1u8, NO_FAIL] {
                                if len >= 2 {
                                    a.push(Act::Slice { m: SM::InitTryFillWith, el, len, fail_at, inner });
                                }
                            }
                        }
                    }
                    for m in [SM::InitTryFillWith, SM::InitTryFillIter] {
                        for (el, len) in [(El::U8, 5usize), (El::U64, 3), (El::B3, 2), (El::Unit, 4), (El::U128, 1), (El::U8, cap), (El::U8, cap + 1), (El::U64, cap / 8 + 1), (El::U64, 600)] {
                            a.push(Act::Slice { m, el, len, fail_at: NO_FAIL, inner: Inner::Nothing });
                            if len > 0 {
                                a.push(Act::Slice { m, el, len, fail_at: 0, inner: Inner::Nothing });
                                a.push(Act::Slice { m, el, len, fail_at: (len - 1).min(200) as u8, inner: Inner::Nothing });
                                a.push(Act::Slice { m, el, len, fail_at: (len / 2).min(200) as u8, inner: Inner::Nothing });
                            }
                        }
                    }
                } else {
                    lay(&mut a, true, &[0, 1, 8, 17, cap, cap + 1, 449], &[0, 3, 4, 6]);
                    if cap > 16 {
                        lay(&mut a, true, &[cap - 8, cap - 16, cap - 17], &[0]);
                    }
                    a.push(Act::TryWith { fallible: false, ty: Ty::U64, ok: false, inner: Inner::Nothing, probe: false, esz: 0 });
                    a.push(Act::TryWith { fallible: false, ty: Ty::B449, ok: false, inner: Inner::Nothing, probe: false, esz: 0 });
                    a.push(Act::TryWith { fallible: true, ty: Ty::B449, ok: false, inner: Inner::AllocKeep, probe: false, esz: 0 });
                    a.push(Act::Slice { m: SM::InitTryFillWith, el: El::U64, len: 3, fail_at: 1, inner: Inner::Nothing });
                    a.push(Act::Reset { probe: false });
                    a.push(Act::SetLimit { some: true, val: held_usable + 448 });
                    a.push(Act::SetLimit { some: false, val: 0 });
                    if nraw > 0 {
                        a.push(Act::Dealloc { h: 0 });
                    }
                }
            }
            Profile::AllocApi => {
                let sizes: &[usize] = if t { &[0, 1, 3, 8, 9, 16, 24, 50, 51, 100] } else { &[0, 1, 8, 9, 24, 51] };
                let als: &[u8] = if t { &[0, 1, 3, 4, 5, 6] } else { &[0, 3, 4, 6] };
                for &s in sizes {
                    for &al in als {
                        a.push(Act::Allocate { size: s, al });
                    }
                }
                for &s in &rel {
                    a.push(Act::Allocate { size: s, al: 0 });
                }
                a.push(Act::Allocate { size: 449, al: 4 });
                if last {
                    // sizes above every address, with alignments above and below MIN_ALIGN
                    for size in [1usize << 47, (1usize << 62) + 8, isize::MAX as usize - 4095] {
                        for al in [0u8, 3, 4, 5, 12] {
                            a.push(Act::Allocate { size, al });
                        }
                    }
                }
                for h in 0..(nraw.min(3) as u8) {
                    let (s0, a0) = raw_sz(h).unwrap();
                    let a0l = crate::util::log2(a0);
                    a.push(Act::Dealloc { h });
                    let mut grow_to: Vec<usize> = vec![s0, s0 + 1, s0 + 8, s0 * 2 + 1, s0 + cap, s0 + cap + 1, 449];
                    if t {
                        grow_to.extend([s0 + 3, s0 + 16, s0 + 100]);
                    }
                    grow_to.sort();
                    grow_to.dedup();
                    let gals: Vec<u8> = if t { vec![0, 1, 3, 4, 5, 6] } else { vec![0, a0l, 4, 6] };
                    for &ns in &grow_to {
                        if ns < s0 {
                            continue;
                        }
                        for &al in &gals {
                            a.push(Act::Grow { h, new_size: ns, al, zeroed: false });
                            a.push(Act::Grow { h, new_size: ns, al, zeroed: true });
                        }
                    }
                    let mut shrink_to: Vec<usize> = vec![0, s0 / 2, (s0 + 1) / 2, s0 / 2 + 1, s0.saturating_sub(1), s0, s0 / 4, s0.saturating_sub(s0 / 4)];
                    shrink_to.retain(|x| *x <= s0);
                    shrink_to.sort();
                    shrink_to.dedup();
                    for &ns in &shrink_to {
                        for &al in &gals {
                            a.push(Act::Shrink { h, new_size: ns, al });
                        }
                    }
                }
                a.push(Act::Layout { fallible: true, size: 8, al: 0 });
                a.push(Act::Typed { m: TM::Alloc, ty: Ty::U64 });
                a.push(Act::Reset { probe: false });
            }
            Profile::LayerA => {
                let m = M;
                if w.live.is_empty() {
                    if depth == 0 {
                        a.push(Act::SetLimit { some: true, val: 64 });
                        a.push(Act::SetLimit { some: true, val: 192 });
                    }
                    let chunk = match p.limit {
                        Some(l) => l,
                        None => 448,
                    };
                    let mut k = 0usize;
                    while k * m <= chunk {
                        let s = k * m;
                        let keep = t || chunk < 448 || s <= 96 || s + 96 >= chunk || k % 7 == 0;
                        if keep && s > 0 {
                            a.push(Act::Layout { fallible: true, size: s, al: 0 });
                        }
                        k += 1;
                    }
                    // a zero-sized first request leaves the arena chunk-less: covered by depth 0 grid
                    if depth == 0 {
                        self.layer_a_grid(&mut a, cap, t);
                    }
                } else if w.live.len() == 1 {
                    self.layer_a_grid(&mut a, cap, t);
                }
            }
            Profile::Uniform => {
                let al = w_cfg_aux;
                let ua = 1usize << al;
                for k in 1..=3usize {
                    a.push(Act::Layout { fallible: true, size: k * ua, al });
                }
                if cap >= ua {
                    // land exactly on / just across the chunk boundary
                    a.push(Act::Layout { fallible: true, size: (cap / ua) * ua, al });
                    a.push(Act::Layout { fallible: true, size: (cap / ua + 1) * ua, al });
                }
                for ok in [true, false] {
                    a.push(Act::UniTryWith { al, ok, fallible: false });
                    a.push(Act::UniTryWith { al, ok, fallible: true });
                }
                a.push(Act::UniSliceFail { al, len: 3, fail_at: 0 });
                a.push(Act::UniSliceFail { al, len: 3, fail_at: 1 });
                a.push(Act::UniSliceFail { al, len: 3, fail_at: 2 });
                a.push(Act::UniSliceFail { al, len: 1, fail_at: 0 });
                a.push(Act::UniSliceFail { al, len: 3, fail_at: 255 });
                let big = (cap / ua + 2).min(250) as u8;
                a.push(Act::UniSliceFail { al, len: big, fail_at: big - 1 });
                a.push(Act::Reset { probe: false });
            }
            Profile::Deep | Profile::DeepHop => {
                lay(&mut a, true, &[8], &[0, 4]);
                if cap > 8 {
                    lay(&mut a, true, &[cap], &[0]);
                }
                lay(&mut a, true, &[cap + 1], &[0]);
                a.push(Act::Allocate { size: 24, al: 0 });
                if nraw > 0 {
                    let (s0, a0) = raw_sz(0).unwrap();
                    let a0l = crate::util::log2(a0);
                    a.push(Act::Dealloc { h: 0 });
                    a.push(Act::Shrink { h: 0, new_size: s0 / 2, al: a0l });
                    a.push(Act::Shrink { h: 0, new_size: s0, al: 4 });
                    a.push(Act::Grow { h: 0, new_size: s0 + 8, al: a0l, zeroed: false });
                    a.push(Act::Grow { h: 0, new_size: s0 + cap + 1, al: a0l, zeroed: true });
                }
                a.push(Act::TryWith { fallible: false, ty: Ty::B449, ok: false, inner: Inner::Nothing, probe: false, esz: 0 });
                a.push(Act::TryWith { fallible: true, ty: Ty::U64, ok: false, inner: Inner::AllocKeep, probe: false, esz: 0 });
                a.push(Act::Slice { m: SM::InitTryFillWith, el: El::U64, len: 3, fail_at: 1, inner: Inner::Nothing });
                a.push(Act::Reset { probe: false });
                if self.profile == Profile::DeepHop {
                    a.push(Act::ThreadHop);
                }
                if nraw > 1 {
                    // the block below the newest one (e.g. the one allocated before a hand-over)
                    let (s1, a1) = raw_sz(1).unwrap();
                    a.push(Act::Dealloc { h: 1 });
                    a.push(Act::Grow { h: 1, new_size: s1 + 8, al: crate::util::log2(a1), zeroed: false });
                }
                if p.limit.is_some() {
                    a.push(Act::SetLimit { some: false, val: 0 });
                } else {
                    a.push(Act::SetLimit { some: true, val: held_usable });
                    a.push(Act::SetLimit { some: true, val: held_usable + 1000 });
                }
            }
            Profile::Scale => {
                lay(&mut a, true, &[8, 4033, 70_001, 100_000, 300_001], &[0, 4]);
                if cap > 0 {
                    lay(&mut a, true, &[cap, cap + 1], &[0]);
                }
                lay(&mut a, true, &[100, 10_000, 70_000], &[12, 13]);
                lay(&mut a, false, &[70_001], &[0]);
                a.push(Act::Allocate { size: 70_000, al: 0 });
                a.push(Act::Allocate { size: 4096, al: 3 });
                if nraw > 0 {
                    let (s0, a0) = raw_sz(0).unwrap();
                    let a0l = crate::util::log2(a0).min(13);
                    a.push(Act::Dealloc { h: 0 });
                    a.push(Act::Shrink { h: 0, new_size: s0 / 2, al: a0l });
                    a.push(Act::Grow { h: 0, new_size: s0 + 8, al: a0l, zeroed: false });
                    a.push(Act::Grow { h: 0, new_size: s0 * 2 + 1, al: a0l, zeroed: true });
                    a.push(Act::Grow { h: 0, new_size: s0 + 70_000, al: a0l, zeroed: false });
                }
                a.push(Act::Slice { m: SM::FillCopy, el: El::U8, len: 70_001, fail_at: NO_FAIL, inner: Inner::Nothing });
                a.push(Act::Slice { m: SM::InitTryFillWith, el: El::U64, len: 9000, fail_at: 1, inner: Inner::Nothing });
                a.push(Act::Slice { m: SM::InitTryFillWith, el: El::U64, len: 9000, fail_at: 1, inner: Inner::AllocKeep });
                a.push(Act::TryWith { fallible: false, ty: Ty::B5000, ok: false, inner: Inner::Nothing, probe: last, esz: 3 });
                a.push(Act::TryWith { fallible: true, ty: Ty::B5000, ok: false, inner: Inner::AllocKeep, probe: false, esz: 0 });
                a.push(Act::Str { fallible: true, len: 70_001 });
                a.push(Act::Reset { probe: false });
                if last {
                    a.push(Act::Reset { probe: true });
                    a.push(Act::CapProbe);
                }
                if p.limit.is_some() {
                    a.push(Act::SetLimit { some: false, val: 0 });
                } else {
                    a.push(Act::SetLimit { some: true, val: held_usable });
                    a.push(Act::SetLimit { some: true, val: held_usable + 200_000 });
                    // headrooms around the sizes of the chunks the over-aligned requests need
                    for extra in [9_000usize, 13_000, 17_000, 21_000, 25_000, 29_000, 33_000, 74_000, 78_000, 82_000] {
                        a.push(Act::SetLimit { some: true, val: held_usable + extra });
                    }
                }
            }
            Profile::ApiSweep => {
                let m = M;
                match depth {
                    0 => {
                        for k in 0..=(if t { 64 } else { 32 }) {
                            a.push(Act::Layout { fallible: true, size: k * m, al: 0 });
                        }
                    }
                    1 => {
                        for s in 1..=(if t { 33usize } else { 24 }) {
                            for al in 0..=3u8 {
                                a.push(Act::Allocate { size: s, al });
                            }
                        }
                        a.push(Act::Allocate { size: 40, al: 4 });
                        a.push(Act::Allocate { size: 40, al: 5 });
                        a.push(Act::Allocate { size: 0, al: 3 });
                    }
                    2 | 3 => {
                        if let Some((s0, _a0)) = raw_sz(0) {
                            a.push(Act::Dealloc { h: 0 });
                            if depth == 2 || t {
                                for ns in 0..=s0 {
                                    for al in 0..=4u8 {
                                        a.push(Act::Shrink { h: 0, new_size: ns, al });
                                    }
                                }
                                for d in [0usize, 1, 7, 8, 9, 16, 17] {
                                    for al in 0..=4u8 {
                                        a.push(Act::Grow { h: 0, new_size: s0 + d, al, zeroed: false });
                                        a.push(Act::Grow { h: 0, new_size: s0 + d, al, zeroed: true });
                                    }
                                }
                                a.push(Act::Grow { h: 0, new_size: s0 + cap + 1, al: 0, zeroed: true });
                            }
                            if nraw > 1 {
                                a.push(Act::Dealloc { h: 1 });
                            }
                        }
                    }
                    _ => {
                        a.push(Act::Allocate { size: 1, al: 0 });
                        a.push(Act::Allocate { size: 8, al: 3 });
                        a.push(Act::Layout { fallible: true, size: 3, al: 1 });
                        // slices the arena itself initialises: if they are placed on a live block its bytes change (C02)
                        a.push(Act::Slice { m: SM::FillCopy, el: El::U8, len: 24, fail_at: NO_FAIL, inner: Inner::Nothing });
                        a.push(Act::Slice { m: SM::FillCopy, el: El::U64, len: 2, fail_at: NO_FAIL, inner: Inner::Nothing });
                        a.push(Act::CapProbe);
                    }
                }
            }
            Profile::Panics => {
                if last {
                    for which in [14u8, 15] {
                        // slices that fit the chunk and slices that force a new one; panic at element 0..5 (or never)
                        for len in [6usize, cap / 8 + 6] {
                            for at in 0..6u8 {
                                a.push(Act::PanicCb { which, len, at });
                            }
                        }
                    }
                    for which in 0..14u8 {
                        let lens: &[usize] = if which <= 3 { &[1] } else { &[0, 1, 3, cap / 16 + 1] };
                        for &len in lens {
                            let maxat = if which <= 3 { 1 } else { (len as u8).min(4) + 1 };
                            for at in 0..maxat {
                                a.push(Act::PanicCb { which, len, at });
                            }
                        }
                    }
                } else {
                    lay(&mut a, true, &[0, 8, 24, cap, cap + 1], &[0, 3, 4]);
                    if cap > 40 {
                        lay(&mut a, true, &[cap - 16, cap - 40], &[0]);
                    }
                    a.push(Act::Reset { probe: false });
                    a.push(Act::TryWith { fallible: false, ty: Ty::U64, ok: false, inner: Inner::Nothing, probe: false, esz: 0 });
                    if nraw > 0 {
                        a.push(Act::Dealloc { h: 0 });
                    }
                }
            }
            Profile::CapProbe => {
                lay(&mut a, true, &[0, 1, 3, 8, 17, cap, cap + 1, 449, 5000], &[0, 1, 3, 4, 6, 12]);
                if cap > 0 {
                    lay(&mut a, true, &[cap - 1], &[0]);
                }
                self.allocator_acts(&mut a, nraw, &raw_sz, cap, false);
                a.push(Act::TryWith { fallible: false, ty: Ty::U64, ok: false, inner: Inner::Nothing, probe: false, esz: 0 });
                a.push(Act::TryWith { fallible: false, ty: Ty::B449, ok: false, inner: Inner::Nothing, probe: false, esz: 0 });
                a.push(Act::Reset { probe: false });
                a.push(Act::CapProbe);
            }
        }
        a.dedup();
        a
    }

    fn layer_a_grid(&self, a: &mut Vec<Act>, cap: usize, t: bool) {
        let mut sizes: Vec<usize> = (0..=(if t { 80 } else { 40 })).collect();
        sizes.extend([cap.wrapping_sub(1), cap, cap + 1, 448, 449, 4032, 4033, 1 << 20, isize::MAX as usize - 4095, isize::MAX as usize - 15, isize::MAX as usize]);
        sizes.retain(|s| *s <= isize::MAX as usize);
        sizes.sort();
        sizes.dedup();
        for &s in &sizes {
            for al in 0..=12u8 {
                a.push(Act::Layout { fallible: true, size: s, al });
            }
        }
        for m in ALL_TM {
            for ty in ALL_TY {
                a.push(Act::Typed { m, ty });
            }
        }
    }

    fn allocator_acts(&self, a: &mut Vec<Act>, nraw: usize, raw_sz: &dyn Fn(u8) -> Option<(usize, usize)>, cap: usize, t: bool) {
        for h in 0..(nraw.min(if t { 3 } else { 2 }) as u8) {
            let (s0, a0) = raw_sz(h).unwrap();
            let a0l = crate::util::log2(a0);
            a.push(Act::Dealloc { h });
            for ns in [s0 + 1, s0 * 2 + 1, s0 + cap + 1] {
                a.push(Act::Grow { h, new_size: ns, al: a0l, zeroed: false });
            }
            a.push(Act::Grow { h, new_size: s0 + 8, al: 6, zeroed: true });
            if s0 > 0 {
                a.push(Act::Shrink { h, new_size: s0 / 2, al: a0l });
                a.push(Act::Shrink { h, new_size: s0 - 1, al: a0l });
                a.push(Act::Shrink { h, new_size: s0 / 4, al: 5 });
            }
        }
    }

    pub fn replay(&self, w: &mut Worker, h: &Hist<Cfg, Act>) -> (RunOut<Act>, Vec<String>) {
        self.dispatch(w, h, false, true)
    }

    /// Runs the history; if it contains a hand-over to another thread and violates a memory-safety / accounting
    /// property, the same history is run again with the hand-overs executed on the calling thread: if that run is
    /// clean, the behaviour of the arena depends on which thread executes its operations (C20).
    fn dispatch(&self, w: &mut Worker, h: &Hist<Cfg, Act>, want_enabled: bool, trace: bool) -> (RunOut<Act>, Vec<String>) {
        let (mut out, tr) = self.dispatch_inner(w, h, want_enabled, trace);
        let relevant = |v: &Violation| matches!(v.prop, 1 | 2 | 4 | 8 | 10 | 12);
        if out.violations.iter().any(relevant) && h.steps().iter().any(|s| matches!(s.act, Act::ThreadHop)) {
            super::world::HOP_INLINE.with(|c| c.set(true));
            let (o2, _) = self.dispatch_inner(w, h, false, false);
            super::world::HOP_INLINE.with(|c| c.set(false));
            if !o2.violations.iter().any(relevant) {
                let first = out.violations.iter().find(|v| relevant(v)).unwrap();
                let d = format!("with the arena handed to another thread for one allocation and back, the history violates `{}` ({}); the same history with that allocation made on the owning thread is clean: the arena's behaviour depends on the executing thread", first.key, first.detail);
                out.violations.push(Violation { prop: 20, clause: "behaviour_depends_on_executing_thread", key: format!("behaviour_depends_on_executing_thread/{}", first.clause), detail: d, unsafe_mem: first.unsafe_mem });
            }
        }
        (out, tr)
    }

    fn dispatch_inner(&self, w: &mut Worker, h: &Hist<Cfg, Act>, want_enabled: bool, trace: bool) -> (RunOut<Act>, Vec<String>) {
        match h.cfg.m {
            1 => self.run_m::<1>(w, h, want_enabled, trace),
            2 => self.run_m::<2>(w, h, want_enabled, trace),
            4 => self.run_m::<4>(w, h, want_enabled, trace),
            8 => self.run_m::<8>(w, h, want_enabled, trace),
            16 => self.run_m::<16>(w, h, want_enabled, trace),
            _ => panic!("unsupported MIN_ALIGN in config"),
        }
    }
}

impl Model for ArenaModel {
    type Cfg = Cfg;
    type Act = Act;

    fn configs(&self) -> Vec<Cfg> {
        let mut v = Vec::new();
        if self.profile == Profile::ApiSweep {
            for &m in &self.min_aligns {
                v.push(Cfg { m, ctor: Ctor::MinAlignCap, cap: 1, ans: 0, drop_on_thread: false, aux: 0 });
            }
            return v;
        }
        if self.profile == Profile::LayerA {
            for &m in &self.min_aligns {
                v.push(Cfg { m, ctor: Ctor::MinAlign, cap: 0, ans: 0, drop_on_thread: false, aux: 0 });
            }
            return v;
        }
        if self.profile == Profile::Uniform {
            for &m in &self.min_aligns {
                for al in 0..=4u8 {
                    if (1usize << al) < m as usize {
                        continue;
                    }
                    for (ctor, cap) in [(Ctor::MinAlign, 0usize), (Ctor::MinAlignCap, 1), (Ctor::MinAlignCap, 449)] {
                        v.push(Cfg { m, ctor, cap, ans: 0, drop_on_thread: false, aux: al });
                    }
                }
            }
            return v;
        }
        let caps: Vec<usize> = match self.profile {
            Profile::Ledger | Profile::Fallible => vec![1, 449, 4033],
            Profile::Reset | Profile::CapProbe => vec![1, 65, 449],
            Profile::Scale => vec![4033, 70_000, 300_000],
            _ => vec![1, 449],
        };
        for &m in &self.min_aligns {
            let mk = |ctor, cap, ans: Answer| Cfg { m, ctor, cap, ans: ans.code(), drop_on_thread: false, aux: 0 };
            if m == 1 {
                v.push(mk(Ctor::New, 0, Answer::Default));
                for &c in &caps {
                    v.push(mk(Ctor::WithCap, c, Answer::Default));
                }
            } else {
                v.push(mk(Ctor::MinAlign, 0, Answer::Default));
                for &c in &caps {
                    v.push(mk(Ctor::MinAlignCap, c, Answer::Default));
                }
            }
            // a better-aligned first chunk (valuation 12) — every later in-chunk decision sees it
            v.push(mk(Ctor::MinAlignCap, 1, Answer::GrantV(12)));
            if self.thorough {
                v.push(mk(Ctor::MinAlignCap, 1, Answer::GrantV(5)));
                v.push(mk(Ctor::MinAlignCap, 1, Answer::GrantV(6)));
                v.push(mk(Ctor::Default, 0, Answer::Default));
            }
            match self.profile {
                Profile::Fallible | Profile::Ledger => {
                    // constructors under refusal, fallible and not
                    if m == 1 {
                        v.push(mk(Ctor::TryNew, 0, Answer::Default));
                        v.push(mk(Ctor::TryWithCap, 449, Answer::Default));
                        v.push(mk(Ctor::TryWithCap, 449, Answer::Refuse));
                        v.push(mk(Ctor::WithCap, 449, Answer::Refuse));
                        v.push(mk(Ctor::TryWithCap, isize::MAX as usize, Answer::Default));
                        v.push(mk(Ctor::TryWithCap, usize::MAX, Answer::Default));
                        v.push(mk(Ctor::WithCap, usize::MAX, Answer::Default));
                    }
                    v.push(mk(Ctor::TryMinAlignCap, 449, Answer::Default));
                    v.push(mk(Ctor::TryMinAlignCap, 449, Answer::Refuse));
                    v.push(mk(Ctor::MinAlignCap, 449, Answer::Refuse));
                    v.push(mk(Ctor::TryMinAlignCap, isize::MAX as usize - 14, Answer::Default));
                    v.push(mk(Ctor::TryMinAlignCap, usize::MAX - 62, Answer::Default));
                    let mut c = mk(Ctor::MinAlignCap, 449, Answer::Default);
                    c.drop_on_thread = true;
                    if self.profile == Profile::Ledger {
                        v.push(c);
                    }
                }
                _ => {}
            }
        }
        v
    }

    fn run(&self, w: &mut Worker, h: &Hist<Cfg, Act>, want_enabled: bool) -> RunOut<Act> {
        self.dispatch(w, h, want_enabled, false).0
    }

    fn cov_names(&self) -> &'static [&'static str] {
        &cov::NAMES
    }

    fn alt_answers(&self) -> Vec<Answer> {
        match self.profile {
            Profile::Fallible | Profile::Ledger | Profile::Limit => {
                if self.thorough {
                    vec![Answer::Refuse, Answer::GrantV(12), Answer::RefuseRest, Answer::RefuseAbove(9), Answer::RefuseAbove(12), Answer::RefuseAbove(16)]
                } else {
                    vec![Answer::Refuse, Answer::GrantV(12), Answer::RefuseRest, Answer::RefuseAbove(12)]
                }
            }
            Profile::Core | Profile::AllocApi => vec![Answer::Refuse, Answer::RefuseRest, Answer::GrantV(5), Answer::GrantV(12)],
            _ => {
                if self.thorough {
                    vec![Answer::Refuse, Answer::RefuseRest, Answer::RefuseAbove(9), Answer::RefuseAbove(12), Answer::RefuseAbove(16), Answer::GrantV(12)]
                } else {
                    vec![Answer::Refuse, Answer::RefuseRest, Answer::RefuseAbove(12), Answer::GrantV(12)]
                }
            }
        }
    }

    fn describe(&self, h: &Hist<Cfg, Act>) -> serde_json::Value {
        let steps: Vec<serde_json::Value> = h
            .steps()
            .iter()
            .map(|s: &Step<Act>| {
                let devs: Vec<String> = (0..s.ndev as usize).map(|k| format!("request#{}:{:?}", s.devs[k].0, Answer::from_code(s.devs[k].1))).collect();
                serde_json::json!({"act": format!("{:?}", s.act), "env_answers": devs})
            })
            .collect();
        serde_json::json!({
            "min_align": h.cfg.m, "constructor": format!("{:?}", h.cfg.ctor), "capacity": h.cfg.cap,
            "ctor_env_answer": format!("{:?}", Answer::from_code(h.cfg.ans)), "drop_on_other_thread": h.cfg.drop_on_thread,
            "steps": steps,
        })
    }
}
