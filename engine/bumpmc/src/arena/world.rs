//! World = one real arena + the harness's shadow state + oracles evaluated after each step.

use crate::env::{EnvFault, ExecEnv};
use crate::mc::Violation;
use crate::util::{arena_op, pat, Hasher128, PanicClass};
use bumpalo::Bump;

pub const MAX_CHUNKS_OBS: usize = 12;

#[derive(Clone, Copy, Debug)]
pub struct Blk {
    pub addr: usize,
    pub size: usize,
    pub align: usize,
    pub tag: u32,
    pub epoch: u32,
    /// allocated through a raw-layout entry point: may be passed to deallocate/grow/shrink
    pub raw: bool,
}

#[derive(Clone, Copy, Debug, PartialEq, Eq)]
pub struct Pub {
    pub cap: usize,
    pub ab: usize,
    pub abm: usize,
    pub limit: Option<usize>,
    pub nchunks: usize,
    pub chunks: [(usize, usize); MAX_CHUNKS_OBS],
    /// raw and safe iterators agreed and terminated
    pub iter_ok: bool,
}

/// Coverage events (bit positions in RunOut::cov).
pub mod cov {
    pub const OK_FAST: u64 = 1 << 0; // success without Env request
    pub const OK_NEWCHUNK: u64 = 1 << 1; // success with a granted chunk
    pub const ERR: u64 = 1 << 2; // fallible returned Err
    pub const PANIC_OOM: u64 = 1 << 3;
    pub const PANIC_OTHER: u64 = 1 << 4;
    pub const REFUSED: u64 = 1 << 5; // Env refused at least one request
    pub const HALVED: u64 = 1 << 6; // ≥2 requests in one op (halving retry)
    pub const DEALLOC_RECLAIM: u64 = 1 << 7;
    pub const DEALLOC_NOOP: u64 = 1 << 8;
    pub const GROW_INPLACE: u64 = 1 << 9;
    pub const GROW_MOVED: u64 = 1 << 10;
    pub const SHRINK_INPLACE: u64 = 1 << 11;
    pub const SHRINK_SAME: u64 = 1 << 12;
    pub const SHRINK_MOVED: u64 = 1 << 13;
    pub const RESET_MULTI: u64 = 1 << 14; // reset freed ≥1 chunk
    pub const RESET_EMPTY: u64 = 1 << 15; // reset of chunk-less arena
    pub const LIMIT_BLOCKED: u64 = 1 << 16; // failure with limit set and no Env request
    pub const ZST: u64 = 1 << 17;
    pub const INIT_ERR: u64 = 1 << 18; // initialiser returned Err
    pub const INIT_ERR_NEWCHUNK: u64 = 1 << 19; // ... after its slot forced a new chunk
    pub const REWIND: u64 = 1 << 20; // failed initialiser's space was reclaimed
    pub const TWIN: u64 = 1 << 21; // twin (fallible/infallible) comparison performed
    pub const PROBE: u64 = 1 << 22; // follow-up probe performed
    pub const OVERALIGNED: u64 = 1 << 23; // align > MIN_ALIGN
    pub const GRANT_NONDEFAULT_V: u64 = 1 << 24;
    pub const THREAD_HOP: u64 = 1 << 25;
    pub const CTOR_FAIL: u64 = 1 << 26;
    pub const SMALL_CHUNK: u64 = 1 << 27; // a chunk smaller than the default was created
    pub const NAMES: [&str; 28] = [
        "ok_fast", "ok_newchunk", "err", "panic_oom", "panic_other", "env_refused", "halving_retry", "dealloc_reclaim", "dealloc_noop", "grow_inplace", "grow_moved",
        "shrink_inplace", "shrink_same", "shrink_moved", "reset_multi", "reset_empty", "limit_blocked", "zst", "init_err", "init_err_newchunk", "rewind", "twin", "probe",
        "overaligned", "grant_nondefault_v", "thread_hop", "ctor_fail", "small_chunk",
    ];
}

thread_local! {
    /// see `ArenaModel::dispatch`
    pub static HOP_INLINE: std::cell::Cell<bool> = const { std::cell::Cell::new(false) };
}

pub struct World<const M: usize> {
    pub env: *mut ExecEnv,
    pub arena: usize,
    pub bump: Option<Bump<M>>,
    pub live: Vec<Blk>,
    pub next_tag: u32,
    pub k: usize,
    pub viol: Vec<Violation>,
    pub cov: u64,
    pub outcome: u64,
    pub judge: bool,
    pub step: u32,
    pub terminal: bool,
    pub nreq_last: u8,
    /// per-step trace lines (replay mode)
    pub trace: Option<Vec<String>>,
    /// keys after each step (index 0 = after construction)
    pub keys: Vec<u128>,
    /// ids of error tokens currently owned by the harness
    pub next_err_id: u32,
    /// the pointer being accepted is a field inside a larger reserved slot (alloc_try_with)
    pub skip_min_check: bool,
    /// run "thread hop" actions on the calling thread instead (reference run of the hand-over differential)
    pub hop_inline: bool,
    /// number of hand-overs to another thread so far (part of the state key: code that keeps per-thread state
    /// would make states that differ only in this have different futures)
    pub hops: u8,
}

impl<const M: usize> World<M> {
    pub fn new(env: *mut ExecEnv, arena: usize) -> Self {
        World {
            env,
            arena,
            bump: None,
            live: Vec::with_capacity(16),
            next_tag: 1,
            k: bumpalo::verif_hooks::footer_size(),
            viol: Vec::new(),
            cov: 0,
            outcome: 0,
            judge: false,
            step: 0,
            terminal: false,
            nreq_last: 0,
            trace: None,
            keys: Vec::with_capacity(10),
            next_err_id: 1,
            skip_min_check: false,
            hop_inline: HOP_INLINE.with(|c| c.get()),
            hops: 0,
        }
    }

    #[inline]
    pub fn e(&self) -> &ExecEnv {
        unsafe { &*self.env }
    }

    pub fn b(&self) -> &Bump<M> {
        self.bump.as_ref().unwrap()
    }

    pub fn v(&mut self, prop: u8, clause: &'static str, key: String, detail: String) {
        if self.judge {
            self.viol.push(Violation { prop, clause, key, detail, unsafe_mem: false });
        }
    }

    /// A violation that means memory outside Env's slabs was (or may have been) written.
    pub fn v_unsafe(&mut self, prop: u8, clause: &'static str, key: String, detail: String) {
        if self.judge {
            self.viol.push(Violation { prop, clause, key, detail, unsafe_mem: true });
        }
    }

    pub fn tr(&mut self, f: impl FnOnce() -> String) {
        if let Some(t) = self.trace.as_mut() {
            t.push(f());
        }
    }

    pub fn new_tag(&mut self) -> u32 {
        let t = self.next_tag;
        self.next_tag += 1;
        t
    }

    /// Address relative to the arena's slab (worker independent).
    /// Position of `addr` as far as the crate can see it: offset inside the block it lies in plus the low bits of
    /// that block's base (used instead of `rel` where the allocator may re-issue addresses of freed blocks).
    pub fn rel_canon(&self, addr: usize) -> i64 {
        match self.e().live_blocks(self.arena).find(|b| addr >= b.base && addr <= b.base + b.size) {
            Some(b) => (((b.base & 8191) as i64) << 32) | (addr - b.base) as i64,
            None => -1,
        }
    }

    pub fn rel(&self, addr: usize) -> i64 {
        let base = self.e().slabs[self.arena].base;
        if addr >= base && addr < base + self.e().slabs[self.arena].size {
            (addr - base) as i64
        } else {
            -1
        }
    }

    pub fn observe(&mut self) -> Pub {
        let bump = self.bump.as_mut().unwrap();
        let mut p = Pub { cap: bump.chunk_capacity(), ab: bump.allocated_bytes(), abm: 0, limit: bump.allocation_limit(), nchunks: 0, chunks: [(0, 0); MAX_CHUNKS_OBS], iter_ok: true };
        // raw iterator, bounded (a corrupted list could cycle)
        let mut n = 0usize;
        unsafe {
            for (ptr, len) in bump.iter_allocated_chunks_raw() {
                if n < MAX_CHUNKS_OBS {
                    p.chunks[n] = (ptr as usize, len);
                }
                n += 1;
                if n > 10_000 {
                    p.iter_ok = false;
                    break;
                }
            }
        }
        p.nchunks = n;
        if p.iter_ok {
            p.abm = bump.allocated_bytes_including_metadata();
            let mut i = 0usize;
            for s in bump.iter_allocated_chunks() {
                if i >= n || (i < MAX_CHUNKS_OBS && (s.as_ptr() as usize, s.len()) != p.chunks[i]) {
                    p.iter_ok = false;
                    break;
                }
                i += 1;
            }
            if i != n {
                p.iter_ok = false;
            }
        }
        p
    }

    pub fn fill(&mut self, i: usize) {
        let b = self.live[i];
        unsafe {
            let p = b.addr as *mut u8;
            for j in 0..b.size {
                *p.add(j) = pat(b.tag, b.epoch, j);
            }
        }
    }

    pub fn verify_blk(b: &Blk) -> Option<usize> {
        unsafe {
            let p = b.addr as *const u8;
            for j in 0..b.size {
                if *p.add(j) != pat(b.tag, b.epoch, j) {
                    return Some(j);
                }
            }
        }
        None
    }

    /// C01/C04 checks on a freshly returned block; registers it as live and writes the harness
    /// pattern through it. `expect` (if any) gives the bytes the allocation must already hold.
    /// Returns false if the block is unusable (execution must stop).
    pub fn accept_block(&mut self, what: &'static str, addr: usize, size: usize, align: usize, raw: bool, expect: Option<&dyn Fn(usize) -> u8>) -> bool {
        let m = M;
        if addr == 0 {
            self.v(1, "null_pointer", format!("null_pointer/{what}"), format!("{what} returned null"));
            return false;
        }
        if addr % align != 0 {
            self.v(4, "misaligned_requested", format!("misaligned_requested/{what}/size0={}", size == 0), format!("{what}: addr {:#x} (rel {}) not aligned to requested {align}", addr, self.rel(addr)));
        }
        if addr % m != 0 && !self.skip_min_check {
            self.v(4, "misaligned_min", format!("misaligned_min/{what}/size0={}", size == 0), format!("{what}: addr {:#x} (rel {}) not aligned to MIN_ALIGN {m}", addr, self.rel(addr)));
        }
        if size == 0 {
            self.cov |= cov::ZST;
            self.live.push(Blk { addr, size, align, tag: 0, epoch: 0, raw });
            return true;
        }
        let k = self.k;
        let blk = self.e().block_containing(self.arena, addr, size).copied();
        match blk {
            None => {
                let d = format!("{what}: [{:#x},+{size}) (rel {}) is not inside any block the arena holds", addr, self.rel(addr));
                if crate::env::in_region(addr) && crate::env::in_region(addr + size) {
                    self.v(1, "outside_held_memory", format!("outside_held_memory/{what}"), d);
                } else {
                    self.v_unsafe(1, "outside_held_memory", format!("outside_held_memory/{what}"), d);
                }
                return false;
            }
            Some(b) => {
                if addr + size > b.base + b.size - k {
                    self.v(1, "overlaps_bookkeeping", format!("overlaps_bookkeeping/{what}"), format!("{what}: [{:#x},+{size}) reaches into the trailing {k} bookkeeping bytes of block #{}", addr, b.serial));
                    return false;
                }
            }
        }
        for l in &self.live {
            if l.size > 0 && addr < l.addr + l.size && l.addr < addr + size {
                let d = format!("{what}: [rel {},+{size}) overlaps live block [rel {},+{})", self.rel(addr), self.rel(l.addr), l.size);
                self.v(1, "overlaps_live_block", format!("overlaps_live_block/{what}"), d);
                return false;
            }
        }
        if let Some(f) = expect {
            unsafe {
                let p = addr as *const u8;
                for j in 0..size {
                    if *p.add(j) != f(j) {
                        self.v(2, "wrong_initial_contents", format!("wrong_initial_contents/{what}"), format!("{what}: byte {j} of the new block is {:#x}, expected {:#x}", *p.add(j), f(j)));
                        break;
                    }
                }
            }
        }
        let tag = self.new_tag();
        self.live.push(Blk { addr, size, align, tag, epoch: self.step, raw });
        let i = self.live.len() - 1;
        self.fill(i);
        true
    }

    /// Index into `live` of the h-th most recent raw block.
    pub fn handle(&self, h: u8) -> Option<usize> {
        self.live.iter().enumerate().rev().filter(|(_, b)| b.raw).nth(h as usize).map(|(i, _)| i)
    }

    /// Checks that apply after every operation, whatever it was.
    pub fn generic_post(&mut self, what: &'static str, pre: &Pub, pre_ledger: (usize, usize), is_reset: bool) -> Pub {
        // ---- C03: ledger events
        let faults: Vec<EnvFault> = self.e().faults.clone();
        for f in faults {
            let (clause, key): (&'static str, String) = match &f {
                EnvFault::ForeignFree { .. } => ("foreign_free", format!("foreign_free/{what}")),
                EnvFault::DoubleFree { .. } => ("double_free", format!("double_free/{what}")),
                EnvFault::LayoutMismatch { .. } => ("free_layout_mismatch", format!("free_layout_mismatch/{what}")),
                EnvFault::CrossArenaFree { .. } => ("cross_arena_free", format!("cross_arena_free/{what}")),
                EnvFault::SlabRealloc { .. } => ("slab_realloc", format!("slab_realloc/{what}")),
            };
            let prop = if matches!(f, EnvFault::CrossArenaFree { .. }) { 20 } else { 3 };
            self.v(prop, clause, key, format!("{what}: {:?}", f));
        }
        unsafe { (*self.env).faults.clear() };
        if !is_reset && !self.e().frees.is_empty() {
            let d = format!("{what}: {} block(s) returned to the global allocator outside reset/drop", self.e().frees.len());
            self.v(3, "free_outside_reset_or_drop", format!("free_outside_reset_or_drop/{what}"), d);
        }
        // ---- C01: nothing written outside held blocks / into freed blocks
        if let Some(a) = self.e().check_redzones() {
            self.v(1, "write_outside_block", format!("write_outside_block/{what}"), format!("{what}: red zone byte at rel {} changed", self.rel(a)));
        }
        if let Some((s, a)) = self.e().check_freed_poison() {
            self.v(3, "write_into_freed_block", format!("write_into_freed_block/{what}"), format!("{what}: freed block #{s} written at rel {}", self.rel(a)));
        }
        // ---- C02: live blocks intact
        for i in 0..self.live.len() {
            let b = self.live[i];
            if b.size == 0 {
                continue;
            }
            if self.e().block_containing(self.arena, b.addr, b.size).is_none() {
                // its chunk was released while the block is live (only reset may do that and reset clears `live`)
                self.v(3, "freed_while_live", format!("freed_while_live/{what}"), format!("{what}: chunk under live block rel {} was released", self.rel(b.addr)));
                continue;
            }
            if let Some(j) = Self::verify_blk(&b) {
                let d = format!("{what}: byte {j} of live block [rel {},+{}) changed", self.rel(b.addr), b.size);
                self.v(2, "live_block_changed", format!("live_block_changed/{what}"), d);
            }
        }
        let post = self.observe();
        let nblocks = self.e().live_count(self.arena);
        let bytes = self.e().live_bytes(self.arena);
        // ---- C08: accounting
        if post.iter_ok {
            if post.abm != bytes {
                self.v(8, "abm_ne_held", format!("abm_ne_held/{what}"), format!("{what}: allocated_bytes_including_metadata()={} but the arena holds {} bytes in {} block(s)", post.abm, bytes, nblocks));
            }
            if post.ab != bytes.saturating_sub(self.k * nblocks) {
                self.v(8, "ab_ne_held_minus_overhead", format!("ab_ne_held_minus_overhead/{what}"), format!("{what}: allocated_bytes()={} but held {} - {}*{}", post.ab, bytes, self.k, nblocks));
            }
            if (nblocks, bytes) == pre_ledger && self.e().reqs.iter().all(|r| r.granted.is_none()) && self.e().frees.is_empty() && (post.ab != pre.ab || post.abm != pre.abm) {
                self.v(8, "accounting_changed_without_ledger_change", format!("accounting_changed_without_ledger_change/{what}"), format!("{what}: ab {}→{}, abm {}→{} with no chunk acquired or released", pre.ab, post.ab, pre.abm, post.abm));
            }
        }
        // ---- C10: containment part
        if !post.iter_ok {
            self.v(10, "iterators_disagree", format!("iterators_disagree/{what}"), format!("{what}: iter_allocated_chunks and _raw disagree or do not terminate"));
        } else {
            let mut blocks: Vec<crate::env::Block> = self.e().live_blocks(self.arena).copied().collect();
            blocks.sort_by(|a, b| b.serial.cmp(&a.serial));
            if post.nchunks != blocks.len() {
                self.v(10, "chunk_count", format!("chunk_count/{what}"), format!("{what}: iteration yields {} slices, arena holds {} blocks", post.nchunks, blocks.len()));
            } else {
                for (i, b) in blocks.iter().enumerate().take(MAX_CHUNKS_OBS) {
                    let (p, l) = post.chunks[i];
                    if p < b.base || p + l > b.base + b.size {
                        self.v(10, "slice_outside_chunk", format!("slice_outside_chunk/{what}"), format!("{what}: slice {i} [{p:#x},+{l}) not inside block #{} (newest first)", b.serial));
                    }
                }
                for lb in &self.live {
                    if lb.size == 0 {
                        continue;
                    }
                    let n = (0..post.nchunks.min(MAX_CHUNKS_OBS)).filter(|&i| lb.addr >= post.chunks[i].0 && lb.addr + lb.size <= post.chunks[i].0 + post.chunks[i].1).count();
                    if n != 1 && post.nchunks <= MAX_CHUNKS_OBS {
                        let d = format!("{what}: live block [rel {},+{}) is contained in {n} iterated slices", self.rel(lb.addr), lb.size);
                        self.v(10, "live_block_not_covered_once", format!("live_block_not_covered_once/{what}"), d);
                        break;
                    }
                }
            }
        }
        // ---- C07: limit respected by acquisitions
        if let Some(l) = pre.limit {
            if self.e().reqs.iter().any(|r| r.granted.is_some()) {
                let usable: usize = self.e().live_blocks(self.arena).map(|b| b.size - self.k.min(b.size)).sum();
                if usable > l {
                    let held_before = pre_ledger.1 - self.k * pre_ledger.0;
                    self.v(7, "limit_exceeded", format!("limit_exceeded/{what}/held_before_gt_limit={}", held_before > l), format!("{what}: limit {l}, bytes held for allocation after acquiring a chunk: {usable} (before: {held_before})"));
                }
            }
        }
        post
    }

    /// If the arena's free space (below the bump finger of the newest chunk) reaches into a live
    /// block, the very next allocation will be handed memory that is still live. Exhibit it: request
    /// exactly the bytes between that block's start and the finger and judge the result (C01).
    pub fn precursor_probe(&mut self, what: &'static str) {
        if !self.judge || self.bump.is_none() {
            return;
        }
        let p = self.observe();
        if !p.iter_ok || p.nchunks == 0 {
            return;
        }
        let (finger, len) = p.chunks[0];
        let newest = match self.e().live_blocks(self.arena).max_by_key(|b| b.serial) {
            Some(b) => *b,
            None => return,
        };
        let victim = self.live.iter().filter(|l| l.size > 0 && l.addr >= newest.base && l.addr < newest.base + newest.size && l.addr < finger).map(|l| (l.addr, l.size)).min();
        let (vaddr, vsize) = match victim {
            Some(v) => v,
            None => return,
        };
        let _ = len;
        let want = (finger - vaddr).min(vsize.max(1) + 64);
        if p.cap < want {
            return;
        }
        self.terminal = true;
        let envp = self.env;
        let b = self.bump.take().unwrap();
        // the probing allocation is one the arena initialises itself (a filled byte slice): if it lands on the live
        // block, that block's bytes are changed by the arena, not through any reference of the caller
        let r = arena_op(envp, self.step, self.arena, &[crate::env::Answer::Refuse], || b.try_alloc_slice_fill_copy(want, 0x5Au8).map(|p| p.as_ptr() as usize).ok());
        self.bump = Some(b);
        if let Ok(Some(a)) = r {
            if let Some(l) = self.live.iter().find(|l| l.addr == vaddr).copied() {
                if self.e().block_containing(self.arena, l.addr, l.size).is_some() {
                    if let Some(j) = Self::verify_blk(&l) {
                        self.v(2, "live_block_changed", format!("live_block_changed/after_{what}"), format!("after {what}, a slice of {want} bytes allocated and filled by the arena changed byte {j} of a live block (rel {}, {} bytes)", self.rel(l.addr), l.size));
                    }
                }
            }
            let before = self.viol.len();
            self.accept_block("allocation_after_bad_rewind", a, want, 1, true, None);
            if self.viol.len() > before {
                let d = format!("after {what} the bump finger (rel {}) lies above the start of a live block (rel {}, {} bytes): the next request of {} bytes was placed on top of it", self.rel(finger), self.rel(vaddr), vsize, want);
                self.v(1, "overlaps_live_block", format!("overlaps_live_block/after_{what}"), d);
            }
        }
    }

    /// Canonical key of the current state (DESIGN.md §3.4).
    pub fn key(&self, p: &Pub) -> u128 {
        let mut h = Hasher128::new();
        h.u(M as u64);
        h.u(self.hops as u64);
        h.u(match p.limit {
            None => u64::MAX,
            Some(l) => l as u64,
        });
        h.u(p.ab as u64);
        h.u(p.abm as u64);
        h.u(p.cap as u64);
        let mut blocks: Vec<&crate::env::Block> = self.e().live_blocks(self.arena).collect();
        blocks.sort_by(|a, b| b.serial.cmp(&a.serial));
        h.u(blocks.len() as u64);
        for (i, b) in blocks.iter().enumerate() {
            h.u(b.size as u64);
            h.u(b.align as u64);
            h.u((b.base.trailing_zeros().min(13)) as u64);
            if i < p.nchunks.min(MAX_CHUNKS_OBS) {
                h.u(p.chunks[i].0.wrapping_sub(b.base) as u64);
                h.u(p.chunks[i].1 as u64);
            }
        }
        h.u(p.nchunks as u64);
        // live blocks: position relative to their chunk; the three most recent raw ones keep
        // their identity (they can be named by handles), the rest enter as a set
        let mut rest: u64 = 0;
        let mut named = 0;
        for lb in self.live.iter().rev() {
            let (bi, off) = match blocks.iter().position(|b| lb.addr >= b.base && lb.addr <= b.base + b.size) {
                Some(i) => (i as u64, (lb.addr - blocks[i].base) as u64),
                None => (99, (lb.addr & 0xfff) as u64),
            };
            let mut e = Hasher128::new();
            e.u(bi);
            e.u(off);
            e.u(lb.size as u64);
            e.u(lb.align as u64);
            e.u(lb.raw as u64);
            if lb.raw && named < 3 {
                h.u(e.finish64());
                named += 1;
            } else {
                rest = rest.wrapping_add(e.finish64());
            }
        }
        h.u(rest);
        h.u(self.live.len() as u64);
        h.finish()
    }

    /// Drop the arena (end of every execution) and judge the ledger.
    pub fn drop_arena(&mut self, on_thread: bool) {
        let bump = match self.bump.take() {
            Some(b) => b,
            None => return,
        };
        let held: Vec<u32> = self.e().live_blocks(self.arena).map(|b| b.serial).collect();
        let envp = self.env as usize;
        let arena = self.arena;
        let step = self.step + 1;
        let r: Result<(), PanicClass> = if on_thread {
            let r = std::thread::spawn(move || {
                crate::env::attach(envp as *mut ExecEnv);
                let r = arena_op(envp as *mut ExecEnv, step, arena, &[], move || drop(bump));
                crate::env::attach(std::ptr::null_mut());
                r
            })
            .join();
            match r {
                Ok(r) => r,
                Err(_) => Err(PanicClass::Other("thread panicked".into())),
            }
        } else {
            arena_op(self.env, step, arena, &[], move || drop(bump))
        };
        if let Err(p) = r {
            self.v(3, "drop_panicked", "drop_panicked".into(), format!("dropping the arena panicked: {:?}", p));
        }
        let faults: Vec<EnvFault> = self.e().faults.clone();
        for f in faults {
            let clause: &'static str = match &f {
                EnvFault::ForeignFree { .. } => "foreign_free",
                EnvFault::DoubleFree { .. } => "double_free",
                EnvFault::LayoutMismatch { .. } => "free_layout_mismatch",
                EnvFault::CrossArenaFree { .. } => "cross_arena_free",
                EnvFault::SlabRealloc { .. } => "slab_realloc",
            };
            self.v(3, clause, format!("{clause}/drop"), format!("drop: {:?}", f));
        }
        unsafe { (*self.env).faults.clear() };
        let left = self.e().live_count(self.arena);
        if left != 0 {
            self.v(3, "leak_after_drop", "leak_after_drop".into(), format!("after dropping the arena {left} of {} block(s) are still held", held.len()));
        }
        if let Some(a) = self.e().check_redzones() {
            self.v(1, "write_outside_block", "write_outside_block/drop".into(), format!("drop: red zone byte at rel {} changed", self.rel(a)));
        }
    }
}
