//! Type families used by the typed / slice allocation flavours. Every type is plain bytes
//! (no padding, every bit pattern valid) so values can be built from and compared with the
//! harness byte pattern.

use crate::util::{log_push, pat};

#[derive(Clone, Copy, Debug, PartialEq, Eq, Hash)]
#[repr(u8)]
pub enum Ty {
    U8,
    U16,
    B3,
    U32,
    U64,
    U128,
    W256,
    B449,
    B5000,
    A32,
    A64,
    A4096,
    Unit,
    Z64,
}

pub const ALL_TY: [Ty; 14] = [Ty::U8, Ty::U16, Ty::B3, Ty::U32, Ty::U64, Ty::U128, Ty::W256, Ty::B449, Ty::B5000, Ty::A32, Ty::A64, Ty::A4096, Ty::Unit, Ty::Z64];

#[derive(Clone, Copy)]
#[repr(C, align(32))]
pub struct A32(pub [u8; 32]);
#[derive(Clone, Copy)]
#[repr(C, align(64))]
pub struct A64(pub [u8; 64]);
#[derive(Clone, Copy)]
#[repr(C, align(4096))]
pub struct A4096(pub [u8; 4096]);
#[derive(Clone, Copy)]
#[repr(C, align(64))]
pub struct Z64;

#[macro_export]
macro_rules! with_ty {
    ($ty:expr, $T:ident => $body:expr) => {
        match $ty {
            $crate::arena::types::Ty::U8 => { type $T = u8; $body }
            $crate::arena::types::Ty::U16 => { type $T = u16; $body }
            $crate::arena::types::Ty::B3 => { type $T = [u8; 3]; $body }
            $crate::arena::types::Ty::U32 => { type $T = u32; $body }
            $crate::arena::types::Ty::U64 => { type $T = u64; $body }
            $crate::arena::types::Ty::U128 => { type $T = u128; $body }
            $crate::arena::types::Ty::W256 => { type $T = [u64; 32]; $body }
            $crate::arena::types::Ty::B449 => { type $T = [u8; 449]; $body }
            $crate::arena::types::Ty::B5000 => { type $T = [u8; 5000]; $body }
            $crate::arena::types::Ty::A32 => { type $T = $crate::arena::types::A32; $body }
            $crate::arena::types::Ty::A64 => { type $T = $crate::arena::types::A64; $body }
            $crate::arena::types::Ty::A4096 => { type $T = $crate::arena::types::A4096; $body }
            $crate::arena::types::Ty::Unit => { type $T = (); $body }
            $crate::arena::types::Ty::Z64 => { type $T = $crate::arena::types::Z64; $body }
        }
    };
}

impl Ty {
    pub fn layout(self) -> std::alloc::Layout {
        with_ty!(self, T => std::alloc::Layout::new::<T>())
    }
}

/// Build a `T` whose bytes are `pat(tag, epoch, base + j)`.
#[inline]
pub fn make<T: Copy>(tag: u32, epoch: u32, base: usize) -> T {
    unsafe {
        let mut v = std::mem::MaybeUninit::<T>::uninit();
        let p = v.as_mut_ptr() as *mut u8;
        for j in 0..std::mem::size_of::<T>() {
            *p.add(j) = pat(tag, epoch, base + j);
        }
        v.assume_init()
    }
}

/// Slice element types.
#[derive(Clone, Copy, Debug, PartialEq, Eq, Hash)]
#[repr(u8)]
pub enum El {
    U8,
    U16,
    B3,
    U64,
    U128,
    Unit,
}
pub const ALL_EL: [El; 6] = [El::U8, El::U16, El::B3, El::U64, El::U128, El::Unit];

#[macro_export]
macro_rules! with_el {
    ($el:expr, $T:ident => $body:expr) => {
        match $el {
            $crate::arena::types::El::U8 => { type $T = u8; $body }
            $crate::arena::types::El::U16 => { type $T = u16; $body }
            $crate::arena::types::El::B3 => { type $T = [u8; 3]; $body }
            $crate::arena::types::El::U64 => { type $T = u64; $body }
            $crate::arena::types::El::U128 => { type $T = u128; $body }
            $crate::arena::types::El::Unit => { type $T = (); $body }
        }
    };
}

impl El {
    pub fn size(self) -> usize {
        with_el!(self, T => std::mem::size_of::<T>())
    }
    pub fn align(self) -> usize {
        with_el!(self, T => std::mem::align_of::<T>())
    }
}

/// Wrapper whose `Clone` is logged (kind 1, value = low 64 bits of the bytes).
#[repr(transparent)]
pub struct CL<T: Copy>(pub T);
impl<T: Copy> CL<T> {
    fn low64(&self) -> u64 {
        let mut x = 0u64;
        let n = std::mem::size_of::<T>().min(8);
        unsafe {
            std::ptr::copy_nonoverlapping(&self.0 as *const T as *const u8, &mut x as *mut u64 as *mut u8, n);
        }
        x
    }
}
impl<T: Copy> Clone for CL<T> {
    fn clone(&self) -> Self {
        let _g = crate::env::Callback::enter();
        log_push(1, self.low64());
        CL(self.0)
    }
}

/// `Default` is logged (kind 2) and yields a recognisable value.
#[repr(transparent)]
pub struct Dflt(pub u32);
impl Default for Dflt {
    fn default() -> Self {
        let _g = crate::env::Callback::enter();
        log_push(2, 0);
        Dflt(0xD0D0_5A5A)
    }
}

/// An exact-size iterator that logs every `next` (kind 3, value = index) and whose `len()` is
/// what the harness says (possibly a lie for the overflow grids).
pub struct LoggedIter<T, F: FnMut(usize) -> T> {
    pub i: usize,
    pub n: usize,
    pub f: F,
}
impl<T, F: FnMut(usize) -> T> Iterator for LoggedIter<T, F> {
    type Item = T;
    fn next(&mut self) -> Option<T> {
        let _g = crate::env::Callback::enter();
        log_push(3, self.i as u64);
        if self.i >= self.n {
            return None;
        }
        let v = (self.f)(self.i);
        self.i += 1;
        Some(v)
    }
    fn size_hint(&self) -> (usize, Option<usize>) {
        (self.n - self.i, Some(self.n - self.i))
    }
}
impl<T, F: FnMut(usize) -> T> ExactSizeIterator for LoggedIter<T, F> {}
