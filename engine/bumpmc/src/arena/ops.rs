//! Actions of the arena model and their execution + per-action oracles.

use super::types::*;
use super::world::{cov, Blk, Pub, World};
use crate::env::{Answer, Callback, Reenter};
use crate::util::{arena_op, drops_count, log_clear, log_push, log_take, make_err, pat, ErrTok, PanicClass};
use crate::{with_el, with_ty};
use allocator_api2::alloc::Allocator;
use bumpalo::Bump;
use std::alloc::Layout;
use std::ptr::NonNull;

#[derive(Clone, Copy, Debug, PartialEq, Eq, Hash)]
#[repr(u8)]
pub enum TM {
    Alloc,
    TryAlloc,
    AllocWith,
    TryAllocWith,
}
pub const ALL_TM: [TM; 4] = [TM::Alloc, TM::TryAlloc, TM::AllocWith, TM::TryAllocWith];

#[derive(Clone, Copy, Debug, PartialEq, Eq, Hash)]
#[repr(u8)]
pub enum Inner {
    Nothing,
    AllocKeep,
    AllocRelease,
    ForceChunk,
}
pub const ALL_INNER: [Inner; 4] = [Inner::Nothing, Inner::AllocKeep, Inner::AllocRelease, Inner::ForceChunk];

#[derive(Clone, Copy, Debug, PartialEq, Eq, Hash)]
#[repr(u8)]
pub enum SM {
    Copy,
    TryCopy,
    Clone,
    TryClone,
    FillWith,
    TryFillWith,
    FillCopy,
    TryFillCopy,
    FillClone,
    TryFillClone,
    FillDefault,
    TryFillDefault,
    FillIter,
    TryFillIter,
    /// alloc_slice_try_fill_with (initialiser may fail)
    InitTryFillWith,
    /// alloc_slice_try_fill_iter
    InitTryFillIter,
}
pub const ALL_SM: [SM; 16] = [
    SM::Copy, SM::TryCopy, SM::Clone, SM::TryClone, SM::FillWith, SM::TryFillWith, SM::FillCopy, SM::TryFillCopy, SM::FillClone, SM::TryFillClone, SM::FillDefault, SM::TryFillDefault,
    SM::FillIter, SM::TryFillIter, SM::InitTryFillWith, SM::InitTryFillIter,
];
impl SM {
    pub fn fallible(self) -> bool {
        matches!(self, SM::TryCopy | SM::TryClone | SM::TryFillWith | SM::TryFillCopy | SM::TryFillClone | SM::TryFillDefault | SM::TryFillIter)
    }
}

pub const NO_FAIL: u8 = 255;

#[derive(Clone, Copy, Debug, PartialEq, Eq, Hash)]
#[repr(C)]
pub enum Act {
    Nop,
    Layout { fallible: bool, size: usize, al: u8 },
    Typed { m: TM, ty: Ty },
    TryWith { fallible: bool, ty: Ty, ok: bool, inner: Inner, probe: bool, esz: u8 },
    Slice { m: SM, el: El, len: usize, fail_at: u8, inner: Inner },
    Str { fallible: bool, len: usize },
    Allocate { size: usize, al: u8 },
    Dealloc { h: u8 },
    Grow { h: u8, new_size: usize, al: u8, zeroed: bool },
    Shrink { h: u8, new_size: usize, al: u8 },
    Reset { probe: bool },
    SetLimit { some: bool, val: usize },
    ThreadHop,
    /// C18(b): a request of exactly chunk_capacity() bytes is served from the current chunk
    CapProbe,
    /// C16: an arena method whose user callback panics at its `at`-th invocation
    PanicCb { which: u8, len: usize, at: u8 },
    /// uniform sub-model (C10): alloc_try_with / try_alloc_try_with of a niche-optimised value whose
    /// Result<T, ()> has size = align = 2^al
    UniTryWith { al: u8, ok: bool, fallible: bool },
    /// uniform sub-model: alloc_slice_try_fill_with of `len` elements of size = align = 2^al, failing at `fail_at`
    UniSliceFail { al: u8, len: u8, fail_at: u8 },
}

#[derive(Clone, Debug, PartialEq, Eq)]
pub enum Outcome {
    Ok,
    Err,
    InitErr,
    Panic(PanicClass),
}

impl<const M: usize> World<M> {
    fn pre(&mut self) -> (Pub, (usize, usize)) {
        let p = self.observe();
        let l = (self.e().live_count(self.arena), self.e().live_bytes(self.arena));
        (p, l)
    }

    fn note_requests(&mut self) {
        let (n, refused, granted, nondef) = {
            let e = self.e();
            (
                e.reqs.len(),
                e.reqs.iter().filter(|r| r.granted.is_none()).count(),
                e.reqs.iter().filter(|r| r.granted.is_some()).count(),
                e.reqs.iter().any(|r| r.granted.map_or(false, |a| a.trailing_zeros() as usize > r.align.trailing_zeros() as usize)),
            )
        };
        self.nreq_last = n.min(255) as u8;
        if refused > 0 {
            self.cov |= cov::REFUSED;
        }
        if n >= 2 {
            self.cov |= cov::HALVED;
        }
        if granted > 0 {
            self.cov |= cov::OK_NEWCHUNK;
        }
        if nondef {
            self.cov |= cov::GRANT_NONDEFAULT_V;
        }
        let small = self.e().reqs.iter().any(|r| r.granted.is_some() && r.size < 400);
        if small {
            self.cov |= cov::SMALL_CHUNK;
        }
    }

    /// An allocation failed (Err or panic): nothing may have changed (C09).
    fn check_unchanged(&mut self, what: &'static str, pre: &Pub, post: &Pub, pre_ledger: (usize, usize)) {
        let now = (self.e().live_count(self.arena), self.e().live_bytes(self.arena));
        if now != pre_ledger || self.e().reqs.iter().any(|r| r.granted.is_some()) {
            self.v(9, "failure_changed_held_memory", format!("failure_changed_held_memory/{what}"), format!("{what} failed but the arena's blocks changed: {:?} → {:?}", pre_ledger, now));
        }
        if pre != post {
            self.v(9, "failure_changed_observables", format!("failure_changed_observables/{what}"), format!("{what} failed but observables changed: cap {}→{}, ab {}→{}, chunks {}→{}", pre.cap, post.cap, pre.ab, post.ab, pre.nchunks, post.nchunks));
        }
    }

    fn outcome_bits(&mut self, o: &Outcome) {
        match o {
            Outcome::Ok => {
                if self.e().reqs.is_empty() {
                    self.cov |= cov::OK_FAST;
                }
            }
            Outcome::Err => self.cov |= cov::ERR,
            Outcome::InitErr => self.cov |= cov::INIT_ERR,
            Outcome::Panic(PanicClass::Oom) => self.cov |= cov::PANIC_OOM,
            Outcome::Panic(_) => self.cov |= cov::PANIC_OTHER,
        }
    }

    /// Judge a failed allocation-type action. `fallible`: Err is the only acceptable failure;
    /// otherwise an out-of-memory panic is. `twin` re-runs the counterpart with the same script.
    fn judge_failure(&mut self, what: &'static str, fallible: bool, o: &Outcome, pre: &Pub, post: &Pub, pre_ledger: (usize, usize), script: &[Answer], twin: &mut dyn FnMut(&Bump<M>) -> Outcome) {
        if pre.limit.is_some() && self.e().reqs.is_empty() {
            self.cov |= cov::LIMIT_BLOCKED;
        }
        match (fallible, o) {
            (true, Outcome::Err) => {}
            (true, Outcome::Panic(p)) => {
                self.v(9, "fallible_panicked", format!("fallible_panicked/{what}/{}", panic_kind(p)), format!("{what} panicked: {:?}", p));
                return;
            }
            (false, Outcome::Panic(PanicClass::Oom)) | (false, Outcome::Panic(PanicClass::CapacityOverflow)) | (false, Outcome::Panic(PanicClass::SizeOverflow)) => {}
            (false, Outcome::Panic(p)) => {
                self.v(9, "infallible_misbehaved", format!("infallible_misbehaved/{what}/{}", panic_kind(p)), format!("{what} failed with an unexpected panic: {:?}", p));
                return;
            }
            _ => {}
        }
        self.check_unchanged(what, pre, post, pre_ledger);
        if !self.judge {
            return;
        }
        // twin: same state (verified unchanged), same script
        self.cov |= cov::TWIN;
        let envp = self.env;
        let (step, arena) = (self.step, self.arena);
        let b = self.bump.take().unwrap();
        let r = arena_op(envp, step, arena, script, || twin(&b));
        self.bump = Some(b);
        let t = match r {
            Ok(o) => o,
            Err(p) => Outcome::Panic(p),
        };
        let ok = match (fallible, &t) {
            // we were the fallible one and returned Err: the infallible twin must panic (oom-class)
            (true, Outcome::Panic(PanicClass::Oom)) | (true, Outcome::Panic(PanicClass::CapacityOverflow)) | (true, Outcome::Panic(PanicClass::SizeOverflow)) => true,
            // we were infallible and panicked: the fallible twin must return Err
            (false, Outcome::Err) => true,
            _ => false,
        };
        if !ok {
            self.v(9, "twin_mismatch", format!("twin_mismatch/{what}/fallible={fallible}"), format!("{what}: outcome {:?} but its {} twin gave {:?} in the same state with the same allocator answers", o, if fallible { "infallible" } else { "fallible" }, t));
            return;
        }
        let post2 = self.observe();
        let now = (self.e().live_count(self.arena), self.e().live_bytes(self.arena));
        if post2 != *pre || now != pre_ledger {
            self.v(9, "twin_changed_state", format!("twin_changed_state/{what}"), format!("{what}: the failing twin changed the arena"));
        }
    }

    /// C09: after a failure a request that fits the current chunk still succeeds without Env.
    fn probe_fits(&mut self, what: &'static str, pre: &Pub) {
        if !self.judge || pre.cap < M.max(1) {
            return;
        }
        self.cov |= cov::PROBE;
        self.terminal = true;
        let envp = self.env;
        let (step, arena) = (self.step, self.arena);
        let b = self.bump.take().unwrap();
        let r = arena_op(envp, step, arena, &[Answer::Refuse], || b.try_alloc_layout(Layout::from_size_align(1, 1).unwrap()).map(|p| p.as_ptr() as usize).ok());
        self.bump = Some(b);
        match r {
            Ok(Some(a)) => {
                if !self.e().reqs.is_empty() {
                    self.v(9, "fitting_request_needed_memory_after_failure", format!("fitting_request_needed_memory_after_failure/{what}"), format!("after failed {what} a 1-byte request asked the global allocator although {} bytes were free", pre.cap));
                }
                self.accept_block("probe_after_failure", a, 1, 1, true, None);
            }
            _ => self.v(9, "fitting_request_fails_after_failure", format!("fitting_request_fails_after_failure/{what}"), format!("after failed {what} a 1-byte request failed although {} bytes were free", pre.cap)),
        }
    }

    /// C07: a request that fits the current chunk must succeed whatever the limit;
    /// C18: chunk_capacity() must not overstate.
    fn check_fit_promise(&mut self, what: &'static str, pre: &Pub, size: usize, align: usize, o: &Outcome) {
        let rounded = match size.checked_add(M - 1) {
            Some(x) => x & !(M - 1),
            None => return,
        };
        if align <= M && rounded <= pre.cap {
            if *o != Outcome::Ok {
                self.v(7, "fitting_request_failed", format!("fitting_request_failed/{what}/limit_set={}", pre.limit.is_some()), format!("{what}: size {size} align {align} fits chunk_capacity()={} but failed ({:?}), limit {:?}", pre.cap, o, pre.limit));
                self.v(18, "chunk_capacity_overstates", format!("chunk_capacity_overstates/{what}"), format!("{what}: size {size} align {align} ≤ chunk_capacity()={} but the request failed", pre.cap));
            } else if !self.e().reqs.is_empty() {
                self.v(18, "chunk_capacity_overstates", format!("chunk_capacity_overstates/{what}"), format!("{what}: size {size} align {align} ≤ chunk_capacity()={} but the global allocator was asked", pre.cap));
            }
        }
    }

    pub fn do_layout(&mut self, fallible: bool, size: usize, al: u8, script: &[Answer], c09_probe: bool) {
        let what: &'static str = if fallible { "try_alloc_layout" } else { "alloc_layout" };
        let align = 1usize << al;
        let layout = match Layout::from_size_align(size, align) {
            Ok(l) => l,
            Err(_) => return, // not a constructible Layout: the action does not exist
        };
        if align > M {
            self.cov |= cov::OVERALIGNED;
        }
        let (pre, pl) = self.pre();
        let run = |b: &Bump<M>, f: bool| -> Outcome {
            if f {
                match b.try_alloc_layout(layout) {
                    Ok(_) => Outcome::Ok,
                    Err(_) => Outcome::Err,
                }
            } else {
                b.alloc_layout(layout);
                Outcome::Ok
            }
        };
        let envp = self.env;
        let b = self.bump.take().unwrap();
        let r = arena_op(envp, self.step, self.arena, script, || if fallible { b.try_alloc_layout(layout).map(|p| p.as_ptr() as usize).map_err(|_| ()) } else { Ok(b.alloc_layout(layout).as_ptr() as usize) });
        self.bump = Some(b);
        self.note_requests();
        let o = match &r {
            Ok(Ok(_)) => Outcome::Ok,
            Ok(Err(())) => Outcome::Err,
            Err(p) => Outcome::Panic(p.clone()),
        };
        self.outcome_bits(&o);
        self.tr(|| format!("{what}({size},{align}) -> {:?}", o));
        if let Ok(Ok(a)) = r {
            if !self.accept_block(what, a, size, align, true, None) {
                self.terminal = true;
            }
        }
        self.check_fit_promise(what, &pre, size, align, &o);
        let post = self.generic_post(what, &pre, pl, false);
        if o != Outcome::Ok {
            let mut twin = |b: &Bump<M>| run(b, !fallible);
            self.judge_failure(what, fallible, &o, &pre, &post, pl, script, &mut twin);
            if c09_probe {
                self.probe_fits(what, &pre);
            }
        }
        self.finish(&post, &o);
    }

    pub fn finish(&mut self, post: &Pub, o: &Outcome) {
        let k = self.key(post);
        self.keys.push(k);
        let mut h = crate::util::Hasher128::new();
        h.u(match o {
            Outcome::Ok => 1,
            Outcome::Err => 2,
            Outcome::InitErr => 3,
            Outcome::Panic(_) => 4,
        });
        h.u(self.cov);
        h.u(self.e().reqs.len() as u64);
        for r in self.e().reqs.iter() {
            h.u(r.size as u64);
            h.u(r.granted.is_some() as u64);
        }
        h.u(post.cap as u64);
        self.outcome = h.finish64();
    }

    pub fn do_typed(&mut self, m: TM, ty: Ty, script: &[Answer], c09_probe: bool) {
        let what: &'static str = match m {
            TM::Alloc => "alloc",
            TM::TryAlloc => "try_alloc",
            TM::AllocWith => "alloc_with",
            TM::TryAllocWith => "try_alloc_with",
        };
        let fallible = matches!(m, TM::TryAlloc | TM::TryAllocWith);
        let (pre, pl) = self.pre();
        let tag = self.next_tag + 1000;
        let step = self.step;
        let layout = ty.layout();
        if layout.align() > M {
            self.cov |= cov::OVERALIGNED;
        }
        log_clear();
        let envp = self.env;
        let b = self.bump.take().unwrap();
        let call = |b: &Bump<M>, m: TM| -> Result<usize, ()> {
            with_ty!(ty, T => {
                let val: T = make::<T>(tag, step, 0);
                match m {
                    TM::Alloc => Ok(b.alloc(val) as *mut T as usize),
                    TM::TryAlloc => b.try_alloc(val).map(|r| r as *mut T as usize).map_err(|_| ()),
                    TM::AllocWith => Ok(b.alloc_with(|| { let _g = Callback::enter(); log_push(4, 0); val }) as *mut T as usize),
                    TM::TryAllocWith => b.try_alloc_with(|| { let _g = Callback::enter(); log_push(4, 0); val }).map(|r| r as *mut T as usize).map_err(|_| ()),
                }
            })
        };
        let r = arena_op(envp, self.step, self.arena, script, || call(&b, m));
        self.bump = Some(b);
        self.note_requests();
        let calls = log_take().iter().filter(|x| x.0 == 4).count();
        let o = match &r {
            Ok(Ok(_)) => Outcome::Ok,
            Ok(Err(())) => Outcome::Err,
            Err(p) => Outcome::Panic(p.clone()),
        };
        self.outcome_bits(&o);
        self.tr(|| format!("{what}::<{:?}> -> {:?}", ty, o));
        let with = matches!(m, TM::AllocWith | TM::TryAllocWith);
        if with {
            let want = if o == Outcome::Ok { 1 } else { 0 };
            if calls != want {
                self.v(2, "initialiser_call_count", format!("initialiser_call_count/{what}"), format!("{what}: initialiser called {calls} times, outcome {:?}", o));
            }
        }
        if let Ok(Ok(a)) = r {
            let exp = move |j: usize| pat(tag, step, j);
            if !self.accept_block(what, a, layout.size(), layout.align(), false, Some(&exp)) {
                self.terminal = true;
            }
        }
        self.check_fit_promise(what, &pre, layout.size(), layout.align(), &o);
        let post = self.generic_post(what, &pre, pl, false);
        if o != Outcome::Ok {
            let tm = match m {
                TM::Alloc => TM::TryAlloc,
                TM::TryAlloc => TM::Alloc,
                TM::AllocWith => TM::TryAllocWith,
                TM::TryAllocWith => TM::AllocWith,
            };
            let mut twin = |b: &Bump<M>| match call(b, tm) {
                Ok(_) => Outcome::Ok,
                Err(()) => Outcome::Err,
            };
            self.judge_failure(what, fallible, &o, &pre, &post, pl, script, &mut twin);
            if c09_probe {
                self.probe_fits(what, &pre);
            }
        }
        self.finish(&post, &o);
    }

    pub fn do_str(&mut self, fallible: bool, len: usize, script: &[Answer], c09_probe: bool) {
        let what: &'static str = if fallible { "try_alloc_str" } else { "alloc_str" };
        let (pre, pl) = self.pre();
        // ASCII text derived from the step so contents are recognisable
        let step = self.step;
        let src: String = {
            let _g = Callback::enter();
            (0..len).map(|i| (b'a' + ((i + step as usize) % 26) as u8) as char).collect()
        };
        let envp = self.env;
        let b = self.bump.take().unwrap();
        let call = |b: &Bump<M>, f: bool| -> Result<usize, ()> {
            if f {
                b.try_alloc_str(&src).map(|s| s.as_ptr() as usize).map_err(|_| ())
            } else {
                Ok(b.alloc_str(&src).as_ptr() as usize)
            }
        };
        let r = arena_op(envp, self.step, self.arena, script, || call(&b, fallible));
        self.bump = Some(b);
        self.note_requests();
        let o = match &r {
            Ok(Ok(_)) => Outcome::Ok,
            Ok(Err(())) => Outcome::Err,
            Err(p) => Outcome::Panic(p.clone()),
        };
        self.outcome_bits(&o);
        self.tr(|| format!("{what}(len {len}) -> {:?}", o));
        if let Ok(Ok(a)) = r {
            let sb = src.as_bytes();
            let exp = |j: usize| sb[j];
            if !self.accept_block(what, a, len, 1, false, Some(&exp)) {
                self.terminal = true;
            }
        }
        self.check_fit_promise(what, &pre, len, 1, &o);
        let post = self.generic_post(what, &pre, pl, false);
        if o != Outcome::Ok {
            let mut twin = |b: &Bump<M>| match call(b, !fallible) {
                Ok(_) => Outcome::Ok,
                Err(()) => Outcome::Err,
            };
            self.judge_failure(what, fallible, &o, &pre, &post, pl, script, &mut twin);
            if c09_probe {
                self.probe_fits(what, &pre);
            }
        }
        {
            let _g = Callback::enter();
            drop(src);
        }
        self.finish(&post, &o);
    }

    pub fn do_set_limit(&mut self, some: bool, val: usize) {
        let (pre, pl) = self.pre();
        let lim = if some { Some(val) } else { None };
        let envp = self.env;
        let b = self.bump.take().unwrap();
        let r = arena_op(envp, self.step, self.arena, &[], || b.set_allocation_limit(lim));
        self.bump = Some(b);
        self.note_requests();
        if let Err(p) = r {
            self.v(7, "set_limit_panicked", "set_limit_panicked".into(), format!("set_allocation_limit panicked: {:?}", p));
        }
        self.tr(|| format!("set_allocation_limit({:?})", lim));
        let post = self.generic_post("set_allocation_limit", &pre, pl, false);
        if post.limit != lim {
            self.v(7, "limit_not_stored", "limit_not_stored".into(), format!("allocation_limit() = {:?} after set_allocation_limit({:?})", post.limit, lim));
        }
        // nothing else may change
        let mut p2 = post;
        p2.limit = pre.limit;
        if p2 != pre {
            self.v(7, "set_limit_changed_state", "set_limit_changed_state".into(), "set_allocation_limit changed capacity/accounting/chunks".into());
        }
        self.finish(&post, &Outcome::Ok);
        // differential "no limit ≡ feature absent": None on a limit-less arena, or Some(L);None,
        // must lead back to the very same state
        if !some && self.judge {
            let n = self.keys.len();
            if pre.limit.is_none() && n >= 2 && self.keys[n - 1] != self.keys[n - 2] {
                self.v(7, "noop_limit_changed_state", "noop_limit_changed_state".into(), "set_allocation_limit(None) on an arena without limit changed its state".into());
            }
        }
    }

    /// `keys[i]` comparison for Some(L);None blips is done by the model (it knows the history).

    pub fn do_reset(&mut self, probe: bool) {
        let (pre, pl) = self.pre();
        let held: Vec<crate::env::Block> = self.e().live_blocks(self.arena).copied().collect();
        let envp = self.env;
        let mut b = self.bump.take().unwrap();
        let r = arena_op(envp, self.step, self.arena, &[], || b.reset());
        self.bump = Some(b);
        self.note_requests();
        self.live.clear();
        self.tr(|| format!("reset() with {} block(s) held", held.len()));
        if let Err(p) = &r {
            self.v(6, "reset_panicked", "reset_panicked".into(), format!("reset panicked: {:?}", p));
        }
        // C03: reset gives back every block it holds except exactly one (the property does not say which
        // one is kept), each exactly once, and nothing else
        let freed: Vec<u32> = self.e().frees.iter().map(|f| f.serial).collect();
        let held_ids: Vec<u32> = held.iter().map(|b| b.serial).collect();
        let mut got = freed.clone();
        got.sort();
        got.dedup();
        let ok = got.len() == freed.len() && got.iter().all(|s| held_ids.contains(s)) && freed.len() + 1 == held.len().max(1);
        if !ok {
            self.v(3, "reset_freed_wrong_set", format!("reset_freed_wrong_set/kept={}", held.len() as i64 - freed.len() as i64), format!("reset: held blocks {:?}, freed {:?} (expected: all but one)", held_ids, freed));
        }
        if !self.e().reqs.is_empty() {
            self.v(6, "reset_asked_allocator", "reset_asked_allocator".into(), "reset requested memory from the global allocator".into());
        }
        if held.is_empty() {
            self.cov |= cov::RESET_EMPTY;
        } else if held.len() > 1 {
            self.cov |= cov::RESET_MULTI;
        }
        let post = self.generic_post("reset", &pre, pl, true);
        // ---- C06
        if post.iter_ok {
            if post.nchunks > 1 {
                self.v(6, "reset_keeps_many_chunks", "reset_keeps_many_chunks".into(), format!("after reset iteration yields {} chunks", post.nchunks));
            }
            let bytes: usize = (0..post.nchunks.min(super::world::MAX_CHUNKS_OBS)).map(|i| post.chunks[i].1).sum();
            if bytes != 0 {
                self.v(6, "reset_leaves_allocated_bytes", "reset_leaves_allocated_bytes".into(), format!("after reset chunk iteration shows {bytes} allocated bytes"));
            }
        }
        let nb = self.e().live_count(self.arena);
        if nb > 1 {
            self.v(6, "reset_holds_many_blocks", "reset_holds_many_blocks".into(), format!("after reset the arena holds {nb} blocks"));
        }
        if held.is_empty() && (nb != 0 || post != pre) {
            self.v(6, "reset_of_empty_not_noop", "reset_of_empty_not_noop".into(), "reset of an arena that never obtained memory changed it".into());
        }
        if !held.is_empty() && nb == 0 {
            self.v(6, "reset_released_everything", "reset_released_everything".into(), "reset released every block (it should keep the newest)".into());
        }
        if post.limit != pre.limit {
            self.v(6, "reset_changed_limit", "reset_changed_limit".into(), format!("limit {:?} → {:?}", pre.limit, post.limit));
        }
        if self.b().min_align() != M {
            self.v(6, "reset_changed_min_align", "reset_changed_min_align".into(), "min_align changed".into());
        }
        self.finish(&post, &Outcome::Ok);
        if probe && self.judge && nb == 1 {
            // full usable capacity of the kept block, no allocator traffic
            self.terminal = true;
            self.cov |= cov::PROBE;
            let blk = *self.e().live_blocks(self.arena).next().unwrap();
            let usable = (blk.size - self.k) & !(M - 1);
            if post.cap != usable {
                self.v(6, "reset_capacity_not_full", "reset_capacity_not_full".into(), format!("after reset chunk_capacity()={} but the kept block of {} bytes has {} usable", post.cap, blk.size, usable));
            }
            // "any history after it": first a request that is too big for the kept block while the allocator refuses
            // everything; it must fail and the arena must still hold its block with its full capacity
            let b = self.bump.take().unwrap();
            let r0 = arena_op(envp, self.step, self.arena, &[Answer::RefuseRest], || b.try_alloc_layout(Layout::from_size_align(usable + 1, 1).unwrap()).is_ok());
            let cap_after = b.chunk_capacity();
            self.bump = Some(b);
            if r0 == Ok(false) && (self.e().live_count(self.arena) != 1 || cap_after != post.cap) {
                self.v(6, "reset_block_lost_by_refused_request", "reset_block_lost_by_refused_request".into(), format!("after reset, a refused request of {} bytes left the arena with {} block(s) and chunk_capacity()={} (was 1 block, {})", usable + 1, self.e().live_count(self.arena), cap_after, post.cap));
            }
            if usable >= 16384 {
                // a big kept block must also serve page-aligned requests that fit it (twice), without the allocator
                for k in 0..2 {
                    let b = self.bump.take().unwrap();
                    let r = arena_op(envp, self.step, self.arena, &[Answer::RefuseRest], || b.try_alloc_layout(Layout::from_size_align(4096, 4096).unwrap()).map(|p| p.as_ptr() as usize).ok());
                    self.bump = Some(b);
                    match r {
                        Ok(Some(a)) if self.e().reqs.is_empty() => {
                            self.accept_block("post_reset_page_aligned", a, 4096, 4096, true, None);
                        }
                        _ => {
                            self.v(6, "reset_capacity_unavailable", "reset_capacity_unavailable/page_aligned".into(), format!("after reset the kept block has {usable} usable bytes, but page-aligned request #{k} of 4096 bytes was not served from it (allocator requests: {})", self.e().reqs.len()));
                            break;
                        }
                    }
                }
                let (p2, l2) = (self.observe(), (self.e().live_count(self.arena), self.e().live_bytes(self.arena)));
                let _ = self.generic_post("post_reset_page_aligned", &p2, l2, false);
                return;
            }
            let b = self.bump.take().unwrap();
            let r = arena_op(envp, self.step, self.arena, &[Answer::Refuse], || b.try_alloc_layout(Layout::from_size_align(usable, 1).unwrap()).map(|p| p.as_ptr() as usize).ok());
            self.bump = Some(b);
            match r {
                Ok(Some(a)) if self.e().reqs.is_empty() => {
                    self.accept_block("post_reset_full_capacity", a, usable, 1, true, None);
                }
                Ok(Some(_)) => self.v(6, "reset_capacity_needs_allocator", "reset_capacity_needs_allocator".into(), format!("after reset a request of the kept block's usable size {usable} asked the global allocator")),
                _ => self.v(6, "reset_capacity_unavailable", "reset_capacity_unavailable".into(), format!("after reset a request of the kept block's usable size {usable} failed")),
            }
            let (p2, l2) = (self.observe(), (self.e().live_count(self.arena), self.e().live_bytes(self.arena)));
            let _ = self.generic_post("post_reset_full_capacity", &p2, l2, false);
        }
    }

    pub fn do_cap_probe(&mut self) {
        let (pre, pl) = self.pre();
        self.terminal = true;
        if pre.cap == 0 {
            self.finish(&pre, &Outcome::Ok);
            return;
        }
        let envp = self.env;
        let b = self.bump.take().unwrap();
        let size = pre.cap;
        let r = arena_op(envp, self.step, self.arena, &[Answer::Refuse], || b.try_alloc_layout(Layout::from_size_align(size, 1).unwrap()).map(|p| p.as_ptr() as usize).ok());
        self.bump = Some(b);
        self.note_requests();
        self.cov |= cov::PROBE;
        match r {
            Ok(Some(a)) if self.e().reqs.is_empty() => {
                self.accept_block("cap_probe", a, size, 1, true, None);
            }
            _ => self.v(18, "chunk_capacity_overstates", "chunk_capacity_overstates/cap_probe".into(), format!("chunk_capacity()={size} but a request of exactly that size was not served from the current chunk")),
        }
        let post = self.generic_post("cap_probe", &pre, pl, false);
        self.finish(&post, &Outcome::Ok);
    }

    pub fn do_thread_hop(&mut self) {
        // move the (idle) arena to a fresh OS thread, allocate there, move it back
        let (pre, pl) = self.pre();
        let envp = self.env as usize;
        let (step, arena) = (self.step, self.arena);
        let b = self.bump.take().unwrap();
        let (b, r) = if self.hop_inline {
            let r = arena_op(envp as *mut crate::env::ExecEnv, step, arena, &[], || b.try_alloc_layout(Layout::from_size_align(8, 1).unwrap()).map(|p| p.as_ptr() as usize).ok());
            (b, r)
        } else {
            let h = std::thread::spawn(move || {
                crate::env::attach(envp as *mut crate::env::ExecEnv);
                let r = arena_op(envp as *mut crate::env::ExecEnv, step, arena, &[], || b.try_alloc_layout(Layout::from_size_align(8, 1).unwrap()).map(|p| p.as_ptr() as usize).ok());
                crate::env::attach(std::ptr::null_mut());
                (b, r)
            });
            h.join().expect("hop thread")
        };
        self.bump = Some(b);
        self.note_requests();
        self.hops = self.hops.saturating_add(1);
        self.cov |= cov::THREAD_HOP;
        let o = match r {
            Ok(Some(a)) => {
                if !self.accept_block("alloc_on_other_thread", a, 8, 1, true, None) {
                    self.terminal = true;
                }
                Outcome::Ok
            }
            Ok(None) => Outcome::Err,
            Err(p) => Outcome::Panic(p),
        };
        self.tr(|| format!("thread hop + try_alloc_layout(8,1) -> {:?}", o));
        let post = self.generic_post("alloc_on_other_thread", &pre, pl, false);
        self.finish(&post, &o);
    }
}

pub fn act_what(a: &Act) -> &'static str {
    match a {
        Act::Nop => "nop",
        Act::Layout { .. } => "alloc_layout",
        Act::Typed { .. } => "alloc",
        Act::TryWith { .. } => "alloc_try_with",
        Act::Slice { .. } => "alloc_slice",
        Act::Str { .. } => "alloc_str",
        Act::Allocate { .. } => "allocate",
        Act::Dealloc { .. } => "deallocate",
        Act::Grow { .. } => "grow",
        Act::Shrink { .. } => "shrink",
        Act::Reset { .. } => "reset",
        Act::SetLimit { .. } => "set_allocation_limit",
        Act::ThreadHop => "thread_hop",
        Act::CapProbe => "cap_probe",
        Act::PanicCb { .. } => "panicking_callback",
        Act::UniTryWith { .. } => "alloc_try_with_uniform",
        Act::UniSliceFail { .. } => "alloc_slice_try_fill_with_uniform",
    }
}

pub fn panic_kind(p: &PanicClass) -> &'static str {
    match p {
        PanicClass::Oom => "oom",
        PanicClass::CapacityOverflow => "capacity_overflow",
        PanicClass::SizeOverflow => "size_overflow",
        PanicClass::AllocError => "alloc_error",
        PanicClass::Assertion(_) => "assertion",
        PanicClass::Injected => "injected",
        PanicClass::Other(_) => "other",
    }
}

// ------------------------------------------------------------------------------------------
// Allocator-trait actions (C12)
// ------------------------------------------------------------------------------------------

impl<const M: usize> World<M> {
    pub fn do_allocate(&mut self, size: usize, al: u8, script: &[Answer]) {
        let what = "Allocator::allocate";
        let align = 1usize << al;
        let layout = match Layout::from_size_align(size, align) {
            Ok(l) => l,
            Err(_) => return,
        };
        let (pre, pl) = self.pre();
        let envp = self.env;
        let b = self.bump.take().unwrap();
        let r = arena_op(envp, self.step, self.arena, script, || (&b).allocate(layout).map(|p| (p.as_ptr() as *mut u8 as usize, p.len())).map_err(|_| ()));
        self.bump = Some(b);
        self.note_requests();
        let o = match &r {
            Ok(Ok(_)) => Outcome::Ok,
            Ok(Err(())) => Outcome::Err,
            Err(p) => Outcome::Panic(p.clone()),
        };
        self.outcome_bits(&o);
        self.tr(|| format!("allocate({size},{align}) -> {:?}", o));
        if let Ok(Ok((a, len))) = r {
            if len < size {
                self.v(12, "returned_slice_too_short", format!("returned_slice_too_short/{what}"), format!("{what}: slice of {len} bytes for a request of {size}"));
            }
            if a % align != 0 {
                self.v(12, "misaligned", format!("misaligned/{what}"), format!("{what}: {:#x} not aligned to {align}", a));
            }
            // the caller may use all `len` bytes
            if !self.accept_block(what, a, len.max(size), align, true, None) {
                self.terminal = true;
            }
        }
        if let Outcome::Panic(p) = &o {
            self.v(12, "allocator_method_panicked", format!("allocator_method_panicked/{what}"), format!("{what} panicked: {:?}", p));
            self.v(9, "fallible_panicked", format!("fallible_panicked/{what}/{}", panic_kind(p)), format!("{what} panicked: {:?}", p));
        }
        let post = self.generic_post(what, &pre, pl, false);
        if o == Outcome::Err {
            self.check_unchanged(what, &pre, &post, pl);
        }
        self.finish(&post, &o);
    }

    pub fn do_dealloc(&mut self, h: u8) {
        let what = "Allocator::deallocate";
        let i = match self.handle(h) {
            Some(i) => i,
            None => return,
        };
        let blk = self.live[i];
        let (pre, pl) = self.pre();
        let layout = Layout::from_size_align(blk.size, blk.align).unwrap();
        let envp = self.env;
        let b = self.bump.take().unwrap();
        let r = arena_op(envp, self.step, self.arena, &[], || unsafe { (&b).deallocate(NonNull::new_unchecked(blk.addr as *mut u8), layout) });
        self.bump = Some(b);
        self.note_requests();
        self.live.remove(i);
        if let Err(p) = &r {
            self.v(12, "allocator_method_panicked", format!("allocator_method_panicked/{what}"), format!("{what} panicked: {:?}", p));
        }
        let post = self.generic_post(what, &pre, pl, false);
        if post.cap > pre.cap {
            self.cov |= cov::DEALLOC_RECLAIM;
        } else {
            self.cov |= cov::DEALLOC_NOOP;
        }
        self.tr(|| format!("deallocate(h{h}: size {}, align {}) cap {}→{}", blk.size, blk.align, pre.cap, post.cap));
        if !self.e().reqs.is_empty() {
            self.v(12, "deallocate_asked_allocator", "deallocate_asked_allocator".into(), "deallocate requested memory".into());
        }
        self.finish(&post, &Outcome::Ok);
    }

    pub fn do_grow(&mut self, h: u8, new_size: usize, al: u8, zeroed: bool, script: &[Answer]) {
        let what: &'static str = if zeroed { "Allocator::grow_zeroed" } else { "Allocator::grow" };
        let i = match self.handle(h) {
            Some(i) => i,
            None => return,
        };
        let blk = self.live[i];
        let new_align = 1usize << al;
        if new_size < blk.size {
            return;
        }
        let (old_l, new_l) = match (Layout::from_size_align(blk.size, blk.align), Layout::from_size_align(new_size, new_align)) {
            (Ok(a), Ok(b)) => (a, b),
            _ => return,
        };
        let (pre, pl) = self.pre();
        let envp = self.env;
        let b = self.bump.take().unwrap();
        let r = arena_op(envp, self.step, self.arena, script, || unsafe {
            let p = NonNull::new_unchecked(blk.addr as *mut u8);
            let r = if zeroed { (&b).grow_zeroed(p, old_l, new_l) } else { (&b).grow(p, old_l, new_l) };
            r.map(|p| (p.as_ptr() as *mut u8 as usize, p.len())).map_err(|_| ())
        });
        self.bump = Some(b);
        self.note_requests();
        let o = match &r {
            Ok(Ok(_)) => Outcome::Ok,
            Ok(Err(())) => Outcome::Err,
            Err(p) => Outcome::Panic(p.clone()),
        };
        self.outcome_bits(&o);
        match r {
            Ok(Ok((a, len))) => {
                // successor block: predecessor is gone
                self.live.remove(i);
                if a + new_size > blk.addr && a < blk.addr + blk.size && a != blk.addr {
                    self.cov |= cov::GROW_INPLACE;
                } else if self.e().reqs.is_empty() && a + len.max(new_size) == blk.addr + blk.size.max(0) {
                    self.cov |= cov::GROW_INPLACE;
                } else {
                    self.cov |= cov::GROW_MOVED;
                }
                if len < new_size {
                    self.v(12, "returned_slice_too_short", format!("returned_slice_too_short/{what}"), format!("{what}: slice of {len} bytes for new size {new_size}"));
                }
                if a % new_align != 0 {
                    self.v(12, "misaligned", format!("misaligned/{what}"), format!("{what}: {:#x} not aligned to new alignment {new_align}", a));
                }
                let (tag, epoch, old) = (blk.tag, blk.epoch, blk.size);
                let exp = move |j: usize| -> u8 {
                    if j < old {
                        pat(tag, epoch, j)
                    } else {
                        0
                    }
                };
                // prefix (and zero tail) must be in place before the harness writes
                let mut bad: Option<(usize, bool)> = None;
                if a != 0 && self.e().block_containing(self.arena, a, new_size.max(1)).is_some() {
                    unsafe {
                        let p = a as *const u8;
                        for j in 0..new_size {
                            if j < old {
                                if *p.add(j) != exp(j) {
                                    bad = Some((j, true));
                                    break;
                                }
                            } else if zeroed && *p.add(j) != 0 {
                                bad = Some((j, false));
                                break;
                            }
                        }
                    }
                }
                if let Some((j, prefix)) = bad {
                    if prefix {
                        self.v(2, "grow_lost_prefix", format!("grow_lost_prefix/{what}"), format!("{what}: byte {j} of the first {old} bytes not preserved"));
                        self.v(12, "grow_lost_prefix", format!("grow_lost_prefix/{what}"), format!("{what}: byte {j} of the first {old} bytes not preserved"));
                    } else {
                        self.v(12, "grow_zeroed_tail_not_zero", "grow_zeroed_tail_not_zero".into(), format!("grow_zeroed: byte {j} (old size {old}, new {new_size}) is not zero"));
                    }
                }
                if !self.accept_block(what, a, len.max(new_size), new_align, true, None) {
                    self.terminal = true;
                }
            }
            Ok(Err(())) => {}
            Err(p) => {
                self.v(12, "allocator_method_panicked", format!("allocator_method_panicked/{what}"), format!("{what} panicked: {:?}", p));
                self.v(9, "fallible_panicked", format!("fallible_panicked/{what}/{}", panic_kind(&p)), format!("{what} panicked: {:?}", p));
            }
        }
        self.tr(|| format!("{what}(h{h}: {}→{new_size}, align {}→{new_align}) -> {:?}", blk.size, blk.align, o));
        let post = self.generic_post(what, &pre, pl, false);
        if o == Outcome::Err {
            // original block untouched and still owned (generic_post verified its bytes)
            self.check_unchanged(what, &pre, &post, pl);
            self.failed_realloc_keeps_block(what, &pre, &post, blk);
        }
        self.finish(&post, &o);
    }

    /// C12: "on error the original block is untouched and still owned by the caller": the arena must not
    /// have given the block's space back, and a following allocation must not be placed on it.
    fn failed_realloc_keeps_block(&mut self, what: &'static str, pre: &Pub, post: &Pub, blk: Blk) {
        if !self.judge {
            return;
        }
        if post.cap != pre.cap || post.nchunks != pre.nchunks || post.chunks[0] != pre.chunks[0] {
            self.v(12, "error_released_or_moved_block", format!("error_released_or_moved_block/{what}"), format!("{what} returned Err but the arena's free space changed (chunk_capacity {} -> {}): the caller still owns the original block", pre.cap, post.cap));
        }
        if blk.size == 0 {
            return;
        }
        let envp = self.env;
        let b = self.bump.take().unwrap();
        let n = blk.size.min(64).max(1);
        let r = arena_op(envp, self.step, self.arena, &[Answer::Refuse], || b.try_alloc_layout(Layout::from_size_align(n, 1).unwrap()).map(|p| p.as_ptr() as usize).ok());
        self.bump = Some(b);
        if let Ok(Some(a)) = r {
            if a < blk.addr + blk.size && blk.addr < a + n {
                self.v(12, "block_handed_out_again_after_error", format!("block_handed_out_again_after_error/{what}"), format!("{what} returned Err; the next request of {n} bytes was placed at rel {} on top of the block the caller still owns (rel {}, {} bytes)", self.rel(a), self.rel(blk.addr), blk.size));
                self.v(1, "overlaps_live_block", format!("overlaps_live_block/after_failed_{what}"), format!("{what} returned Err, so the caller still owns its block (rel {}, {} bytes); the next request of {n} bytes was placed at rel {} on top of it", self.rel(blk.addr), blk.size, self.rel(a)));
                self.terminal = true;
            } else {
                self.accept_block("allocation_after_failed_realloc", a, n, 1, true, None);
                self.terminal = true;
            }
        }
    }

    pub fn do_shrink(&mut self, h: u8, new_size: usize, al: u8, script: &[Answer]) {
        let what = "Allocator::shrink";
        let i = match self.handle(h) {
            Some(i) => i,
            None => return,
        };
        let blk = self.live[i];
        let new_align = 1usize << al;
        if new_size > blk.size {
            return;
        }
        let (old_l, new_l) = match (Layout::from_size_align(blk.size, blk.align), Layout::from_size_align(new_size, new_align)) {
            (Ok(a), Ok(b)) => (a, b),
            _ => return,
        };
        let (pre, pl) = self.pre();
        let envp = self.env;
        let b = self.bump.take().unwrap();
        let r = arena_op(envp, self.step, self.arena, script, || unsafe {
            let p = NonNull::new_unchecked(blk.addr as *mut u8);
            (&b).shrink(p, old_l, new_l).map(|p| (p.as_ptr() as *mut u8 as usize, p.len())).map_err(|_| ())
        });
        self.bump = Some(b);
        self.note_requests();
        let o = match &r {
            Ok(Ok(_)) => Outcome::Ok,
            Ok(Err(())) => Outcome::Err,
            Err(p) => Outcome::Panic(p.clone()),
        };
        self.outcome_bits(&o);
        match r {
            Ok(Ok((a, len))) => {
                self.live.remove(i);
                if a == blk.addr {
                    self.cov |= cov::SHRINK_SAME;
                } else if self.e().reqs.is_empty() && a > blk.addr && a < blk.addr + blk.size {
                    self.cov |= cov::SHRINK_INPLACE;
                } else {
                    self.cov |= cov::SHRINK_MOVED;
                }
                if len < new_size {
                    self.v(12, "returned_slice_too_short", format!("returned_slice_too_short/{what}"), format!("{what}: slice of {len} bytes for new size {new_size}"));
                }
                if a % new_align != 0 {
                    self.v(12, "misaligned", format!("misaligned/{what}"), format!("{what}: {:#x} not aligned to new alignment {new_align}", a));
                }
                if a != 0 && new_size > 0 && self.e().block_containing(self.arena, a, new_size).is_some() {
                    unsafe {
                        let p = a as *const u8;
                        for j in 0..new_size {
                            if *p.add(j) != pat(blk.tag, blk.epoch, j) {
                                self.v(2, "shrink_lost_prefix", "shrink_lost_prefix".into(), format!("{what}: byte {j} of the first {new_size} bytes not preserved"));
                                self.v(12, "shrink_lost_prefix", "shrink_lost_prefix".into(), format!("{what}: byte {j} of the first {new_size} bytes not preserved"));
                                break;
                            }
                        }
                    }
                }
                // the caller may use every byte of the slice that was returned (Allocator contract), so all of
                // it must be the caller's alone
                if !self.accept_block(what, a, len.max(new_size), new_align, true, None) {
                    self.terminal = true;
                }
            }
            Ok(Err(())) => {}
            Err(p) => {
                self.v(12, "allocator_method_panicked", format!("allocator_method_panicked/{what}"), format!("{what} panicked: {:?}", p));
            }
        }
        self.tr(|| format!("{what}(h{h}: {}→{new_size}, align {}→{new_align}) -> {:?}", blk.size, blk.align, o));
        let post = self.generic_post(what, &pre, pl, false);
        if o == Outcome::Err {
            self.check_unchanged(what, &pre, &post, pl);
            self.failed_realloc_keeps_block(what, &pre, &post, blk);
        }
        self.finish(&post, &o);
    }
}

// ------------------------------------------------------------------------------------------
// alloc_try_with / try_alloc_try_with (C11)
// ------------------------------------------------------------------------------------------

/// Error types of different sizes around the drop-tracked token (C11 quantifies over error sizes: a
/// big error next to a small value makes the reserved `Result<T, E>` slot much larger than the value).
pub trait ErrLike: Sized {
    fn mk(id: u32) -> Self;
    fn tok(self) -> ErrTok;
}
impl ErrLike for ErrTok {
    fn mk(id: u32) -> Self {
        make_err(id)
    }
    fn tok(self) -> ErrTok {
        self
    }
}
pub struct BigErr<const N: usize> {
    tok: ErrTok,
    _pad: [u8; N],
}
impl<const N: usize> ErrLike for BigErr<N> {
    fn mk(id: u32) -> Self {
        BigErr { tok: make_err(id), _pad: [0xE7; N] }
    }
    fn tok(self) -> ErrTok {
        self.tok
    }
}
macro_rules! with_err {
    ($e:expr, $E:ident => $body:expr) => {
        match $e {
            0 => { type $E = ErrTok; $body }
            1 => { type $E = BigErr<300>; $body }
            2 => { type $E = BigErr<600>; $body }
            _ => { type $E = BigErr<5000>; $body }
        }
    };
}

impl<const M: usize> World<M> {
    pub fn do_try_with(&mut self, fallible: bool, ty: Ty, ok: bool, inner: Inner, probe: bool, esz: u8, script: &[Answer]) {
        let what: &'static str = if fallible { "try_alloc_try_with" } else { "alloc_try_with" };
        let (pre, pl) = self.pre();
        let tag = self.next_tag + 1000;
        let step = self.step;
        let err_id = self.next_err_id;
        self.next_err_id += 1;
        log_clear();
        let envp = self.env;
        let b = self.bump.take().unwrap();
        let pre_cap = pre.cap;
        // (address of the T on Ok, error id on Err, slot layout, kept inner block)
        #[derive(Debug)]
        enum R {
            Ok(usize),
            InitErr(ErrTok),
            AllocErr,
        }
        let mut kept: Option<(usize, usize)> = None;
        let mut slot_layout = Layout::new::<()>();
        let mut val_layout = Layout::new::<()>();
        let mut val_off = 0usize;
        let r = {
            let kept_ref = &mut kept;
            let sl = &mut slot_layout;
            let vl = &mut val_layout;
            let vo = &mut val_off;
            arena_op(envp, self.step, self.arena, script, || {
                with_ty!(ty, T => { with_err!(esz, E => {
                    *sl = Layout::new::<Result<T, E>>();
                    *vl = Layout::new::<T>();
                    {
                        // where the T sits inside its Result<T, E> slot
                        let probe: std::mem::MaybeUninit<Result<T, E>> = std::mem::MaybeUninit::new(Ok(make::<T>(0, 0, 0)));
                        let pr = unsafe { &*probe.as_ptr() };
                        *vo = match pr { Ok(t) => (t as *const T as usize) - (pr as *const Result<T, E> as usize), Err(_) => 0 };
                    }
                    let bref = &b;
                    let init = || -> Result<T, E> {
                        let _g = Callback::enter();
                        log_push(4, 0);
                        match inner {
                            Inner::Nothing => {}
                            Inner::AllocKeep => {
                                let _r = Reenter::enter();
                                if let Ok(p) = bref.try_alloc_layout(Layout::from_size_align(8, 1).unwrap()) {
                                    *kept_ref = Some((p.as_ptr() as usize, 8));
                                }
                            }
                            Inner::AllocRelease => {
                                let _r = Reenter::enter();
                                let l = Layout::from_size_align(8, 1).unwrap();
                                if let Ok(p) = bref.allocate(l) {
                                    unsafe { bref.deallocate(p.cast(), l) };
                                }
                            }
                            Inner::ForceChunk => {
                                let _r = Reenter::enter();
                                let n = bref.chunk_capacity() + 1;
                                if let Ok(p) = bref.try_alloc_layout(Layout::from_size_align(n, 1).unwrap()) {
                                    *kept_ref = Some((p.as_ptr() as usize, n));
                                }
                            }
                        }
                        if ok { Ok(make::<T>(tag, step, 0)) } else { Err(E::mk(err_id)) }
                    };
                    if fallible {
                        match b.try_alloc_try_with(init) {
                            Ok(r) => R::Ok(r as *mut T as usize),
                            Err(bumpalo::AllocOrInitError::Init(e)) => R::InitErr(e.tok()),
                            Err(bumpalo::AllocOrInitError::Alloc(_)) => R::AllocErr,
                        }
                    } else {
                        match b.alloc_try_with(init) {
                            Ok(r) => R::Ok(r as *mut T as usize),
                            Err(e) => R::InitErr(e.tok()),
                        }
                    }
                }) })
            })
        };
        self.bump = Some(b);
        self.note_requests();
        let _ = pre_cap;
        let calls = log_take().iter().filter(|x| x.0 == 4).count();
        let nreq_total = self.e().reqs.len();
        let o = match &r {
            Ok(R::Ok(_)) => Outcome::Ok,
            Ok(R::InitErr(_)) => Outcome::InitErr,
            Ok(R::AllocErr) => Outcome::Err,
            Err(p) => Outcome::Panic(p.clone()),
        };
        self.outcome_bits(&o);
        self.tr(|| format!("{what}::<{:?}>(ok={ok},{:?}) -> {:?} kept={:?}", ty, inner, o, kept));
        // initialiser not run when the reservation fails
        match &o {
            Outcome::Err | Outcome::Panic(PanicClass::Oom) => {
                if calls != 0 {
                    self.v(11, "initialiser_ran_without_space", format!("initialiser_ran_without_space/{what}"), format!("{what}: reservation failed but the initialiser ran {calls} time(s)"));
                }
            }
            Outcome::Ok | Outcome::InitErr => {
                if calls != 1 {
                    self.v(11, "initialiser_call_count", format!("initialiser_call_count/{what}"), format!("{what}: initialiser ran {calls} times"));
                }
            }
            _ => {}
        }
        // blocks the initialiser kept
        if let Some((a, n)) = kept {
            if !self.accept_block("allocation_inside_initialiser", a, n, 1, true, None) {
                self.terminal = true;
            }
        }
        let mut err_tok: Option<ErrTok> = None;
        match r {
            Ok(R::Ok(a)) => {
                let exp = move |j: usize| pat(tag, step, j);
                // the reference points at the T inside the reserved Result<T, E> slot: the slot
                // must honour MIN_ALIGN; the T itself is judged separately (distinct key)
                let off = val_off;
                let slot = a.wrapping_sub(off);
                if slot % M != 0 || slot % slot_layout.align() != 0 {
                    self.v(4, "misaligned_slot", format!("misaligned_slot/{what}"), format!("{what}: Result slot at rel {} not aligned to MIN_ALIGN {} / its own alignment {}", self.rel(slot), M, slot_layout.align()));
                }
                if a % M != 0 {
                    self.v(4, "value_inside_result_slot_not_min_aligned", format!("value_inside_result_slot_not_min_aligned/{what}"), format!("{what}::<{:?}>: the returned &mut T is at offset {off} inside its Result<T, E> slot (rel {}), so it is not aligned to MIN_ALIGN {}", ty, self.rel(a), M));
                }
                self.skip_min_check = true;
                if !self.accept_block(what, a, val_layout.size(), val_layout.align(), false, Some(&exp)) {
                    self.terminal = true;
                }
                self.skip_min_check = false;
            }
            Ok(R::InitErr(e)) => {
                if e.id != err_id {
                    self.v(11, "wrong_error_delivered", format!("wrong_error_delivered/{what}"), format!("{what}: error id {} delivered, {} created", e.id, err_id));
                }
                if drops_count(err_id) != 0 {
                    self.v(11, "error_dropped_inside_arena", format!("error_dropped_inside_arena/{what}"), format!("{what}: the error value was dropped {} time(s) before the caller got it", drops_count(err_id)));
                }
                err_tok = Some(e);
            }
            _ => {
                if !ok && drops_count(err_id) > 1 {
                    self.v(11, "error_dropped_twice", format!("error_dropped_twice/{what}"), format!("{what}: error dropped {} times", drops_count(err_id)));
                }
            }
        }
        let post = self.generic_post(what, &pre, pl, false);
        if let (Some((ka, kn)), true, true) = (kept, self.judge, matches!(o, Outcome::InitErr)) {
            // blocks the initialiser allocated and kept stay valid: the next allocations must not land on them
            let envp2 = self.env;
            let b = self.bump.take().unwrap();
            let r2 = arena_op(envp2, self.step, self.arena, &[], || {
                let x = b.try_alloc_slice_fill_copy(16, 0x5Au8).map(|p| p.as_ptr() as usize).ok();
                let y = b.try_alloc_slice_fill_copy(kn.min(4096), 0x5Au8).map(|p| p.as_ptr() as usize).ok();
                (x, y)
            });
            self.bump = Some(b);
            {
                let (p2, l2) = (self.observe(), (self.e().live_count(self.arena), self.e().live_bytes(self.arena)));
                let _ = self.generic_post("allocation_after_failed_init", &p2, l2, false);
            }
            if let Ok((x, y)) = r2 {
                for (addr, n) in [(x, 16usize), (y, kn.min(4096))] {
                    if let Some(addr) = addr {
                        if addr < ka + kn && ka < addr + n {
                            self.v(11, "kept_block_overwritten_later", format!("kept_block_overwritten_later/{what}"), format!("{what}: the initialiser allocated and kept [rel {},+{kn}) and then failed; a following request of {n} bytes was placed at rel {}, on top of it", self.rel(ka), self.rel(addr)));
                            self.v(1, "overlaps_live_block", format!("overlaps_live_block/after_{what}"), format!("{what}: a block the failed initialiser allocated and kept (rel {}, {kn} bytes) was handed out again at rel {}", self.rel(ka), self.rel(addr)));
                            self.terminal = true;
                            break;
                        }
                        self.accept_block("allocation_after_failed_init", addr, n, 1, true, None);
                    }
                }
            }
            self.cov |= cov::PROBE;
        }
        if let Some(e) = err_tok.take() {
            let forced_new = nreq_total > 0 && self.e().live_count(self.arena) > pl.0;
            if forced_new {
                self.cov |= cov::INIT_ERR_NEWCHUNK;
            }
            if post.cap == pre.cap && self.e().live_count(self.arena) == pl.0 {
                self.cov |= cov::REWIND;
            }
            {
                let _g = Callback::enter();
                drop(e);
            }
            if drops_count(err_id) != 1 {
                self.v(11, "error_drop_count", format!("error_drop_count/{what}"), format!("{what}: after the caller dropped the error it was dropped {} times", drops_count(err_id)));
            }
            // residue: same-layout request is served without the global allocator
            if probe && self.judge && inner == Inner::Nothing {
                self.terminal = true;
                self.cov |= cov::PROBE;
                let b = self.bump.take().unwrap();
                let sl = slot_layout;
                let r2 = arena_op(envp, self.step, self.arena, &[], || b.try_alloc_layout(sl).map(|p| p.as_ptr() as usize).ok());
                self.bump = Some(b);
                let n2 = self.e().reqs.len();
                match r2 {
                    Ok(Some(a)) => {
                        if n2 != 0 {
                            self.v(11, "failed_value_space_not_reusable", format!("failed_value_space_not_reusable/{what}/new_chunk={forced_new}"), format!("{what}: after the initialiser failed (it allocated nothing) a request of the same layout ({} bytes, align {}) asked the global allocator {} time(s); new chunk for the slot: {forced_new}", sl.size(), sl.align(), n2));
                        }
                        self.accept_block("same_layout_after_failed_init", a, sl.size(), sl.align(), true, None);
                    }
                    _ => self.v(11, "failed_value_space_not_reusable", format!("failed_value_space_not_reusable/{what}/new_chunk={forced_new}"), format!("{what}: same-layout request after failed initialiser failed")),
                }
                let (p2, l2) = (self.observe(), (self.e().live_count(self.arena), self.e().live_bytes(self.arena)));
                let _ = self.generic_post("same_layout_after_failed_init", &p2, l2, false);
            }
        }
        if matches!(o, Outcome::Err | Outcome::Panic(_)) {
            // reservation failed: C09 (only meaningful when the initialiser did not run)
            if calls == 0 {
                match (&o, fallible) {
                    (Outcome::Panic(p), true) => self.v(9, "fallible_panicked", format!("fallible_panicked/{what}/{}", panic_kind(p)), format!("{what} panicked: {:?}", p)),
                    (Outcome::Panic(PanicClass::Oom), false) | (Outcome::Err, _) => self.check_unchanged(what, &pre, &post, pl),
                    (Outcome::Panic(p), false) => self.v(9, "infallible_misbehaved", format!("infallible_misbehaved/{what}/{}", panic_kind(p)), format!("{what}: unexpected panic {:?}", p)),
                    _ => {}
                }
            }
        }
        self.finish(&post, &o);
    }
}

// ------------------------------------------------------------------------------------------
// slice flavours (C01, C02, C11)
// ------------------------------------------------------------------------------------------

impl<const M: usize> World<M> {
    pub fn do_slice(&mut self, m: SM, el: El, len: usize, fail_at: u8, inner: Inner, script: &[Answer], c09_probe: bool) {
        let what: &'static str = match m {
            SM::Copy => "alloc_slice_copy",
            SM::TryCopy => "try_alloc_slice_copy",
            SM::Clone => "alloc_slice_clone",
            SM::TryClone => "try_alloc_slice_clone",
            SM::FillWith => "alloc_slice_fill_with",
            SM::TryFillWith => "try_alloc_slice_fill_with",
            SM::FillCopy => "alloc_slice_fill_copy",
            SM::TryFillCopy => "try_alloc_slice_fill_copy",
            SM::FillClone => "alloc_slice_fill_clone",
            SM::TryFillClone => "try_alloc_slice_fill_clone",
            SM::FillDefault => "alloc_slice_fill_default",
            SM::TryFillDefault => "try_alloc_slice_fill_default",
            SM::FillIter => "alloc_slice_fill_iter",
            SM::TryFillIter => "try_alloc_slice_fill_iter",
            SM::InitTryFillWith => "alloc_slice_try_fill_with",
            SM::InitTryFillIter => "alloc_slice_try_fill_iter",
        };
        let (pre, pl) = self.pre();
        let tag = self.next_tag + 1000;
        let step = self.step;
        let err_id = self.next_err_id;
        self.next_err_id += 1;
        let esz = el.size();
        let ealign = if matches!(m, SM::FillDefault | SM::TryFillDefault) { 4 } else { el.align() };
        let esz = if matches!(m, SM::FillDefault | SM::TryFillDefault) { 4 } else { esz };
        let fail = if fail_at == NO_FAIL { None } else { Some(fail_at as usize) };
        log_clear();
        let envp = self.env;
        let b = self.bump.take().unwrap();
        enum R {
            Ok(usize, usize),
            InitErr(ErrTok),
            AllocErr,
        }
        // expected contents: 0 = position pattern, 1 = element 0 repeated, 2 = Dflt
        let mode: u8 = match m {
            SM::FillCopy | SM::TryFillCopy | SM::FillClone | SM::TryFillClone => 1,
            SM::FillDefault | SM::TryFillDefault => 2,
            _ => 0,
        };
        let kept_cell: std::cell::Cell<Option<(usize, usize)>> = std::cell::Cell::new(None);
        let call = |b: &Bump<M>, m: SM| -> R {
            with_el!(el, T => {
                // source data (harness memory)
                // huge lengths can never be reserved: no source data (a callback that runs anyway panics on the index)
                let n_src = if len > (1 << 22) { 0 } else { len };
                let src: Vec<T> = { let _g = Callback::enter(); (0..n_src).map(|i| make::<T>(tag, step, i * std::mem::size_of::<T>())).collect() };
                let first: T = make::<T>(tag, step, 0);
                let res = match m {
                    SM::Copy => { let s = b.alloc_slice_copy(&src); R::Ok(s.as_ptr() as usize, s.len()) }
                    SM::TryCopy => match b.try_alloc_slice_copy(&src) { Ok(s) => R::Ok(s.as_ptr() as usize, s.len()), Err(_) => R::AllocErr },
                    SM::Clone => {
                        let csrc: &[CL<T>] = unsafe { std::slice::from_raw_parts(src.as_ptr() as *const CL<T>, src.len()) };
                        let s = b.alloc_slice_clone(csrc); R::Ok(s.as_ptr() as usize, s.len())
                    }
                    SM::TryClone => {
                        let csrc: &[CL<T>] = unsafe { std::slice::from_raw_parts(src.as_ptr() as *const CL<T>, src.len()) };
                        match b.try_alloc_slice_clone(csrc) { Ok(s) => R::Ok(s.as_ptr() as usize, s.len()), Err(_) => R::AllocErr }
                    }
                    SM::FillWith => { let s = b.alloc_slice_fill_with(len, |i| { let _g = Callback::enter(); log_push(5, i as u64); src[i] }); R::Ok(s.as_ptr() as usize, s.len()) }
                    SM::TryFillWith => match b.try_alloc_slice_fill_with(len, |i| { let _g = Callback::enter(); log_push(5, i as u64); src[i] }) { Ok(s) => R::Ok(s.as_ptr() as usize, s.len()), Err(_) => R::AllocErr },
                    SM::FillCopy => { let s = b.alloc_slice_fill_copy(len, first); R::Ok(s.as_ptr() as usize, s.len()) }
                    SM::TryFillCopy => match b.try_alloc_slice_fill_copy(len, first) { Ok(s) => R::Ok(s.as_ptr() as usize, s.len()), Err(_) => R::AllocErr },
                    SM::FillClone => { let s = b.alloc_slice_fill_clone(len, &CL(first)); R::Ok(s.as_ptr() as usize, s.len()) }
                    SM::TryFillClone => match b.try_alloc_slice_fill_clone(len, &CL(first)) { Ok(s) => R::Ok(s.as_ptr() as usize, s.len()), Err(_) => R::AllocErr },
                    SM::FillDefault => { let s = b.alloc_slice_fill_default::<Dflt>(len); R::Ok(s.as_ptr() as usize, s.len()) }
                    SM::TryFillDefault => match b.try_alloc_slice_fill_default::<Dflt>(len) { Ok(s) => R::Ok(s.as_ptr() as usize, s.len()), Err(_) => R::AllocErr },
                    SM::FillIter => { let it = LoggedIter { i: 0, n: len, f: |i| src[i] }; let s = b.alloc_slice_fill_iter(it); R::Ok(s.as_ptr() as usize, s.len()) }
                    SM::TryFillIter => { let it = LoggedIter { i: 0, n: len, f: |i| src[i] }; match b.try_alloc_slice_fill_iter(it) { Ok(s) => R::Ok(s.as_ptr() as usize, s.len()), Err(_) => R::AllocErr } }
                    SM::InitTryFillWith => match b.alloc_slice_try_fill_with(len, |i| {
                        let _g = Callback::enter();
                        log_push(5, i as u64);
                        if i == 0 && inner != Inner::Nothing {
                            // the initialiser allocates in the same arena (and keeps or releases the block)
                            let _r = Reenter::enter();
                            let l = Layout::from_size_align(24, 1).unwrap();
                            if let Ok(p) = b.try_alloc_layout(l) {
                                if inner == Inner::AllocRelease {
                                    unsafe { b.deallocate(p, l) };
                                } else {
                                    kept_cell.set(Some((p.as_ptr() as usize, 24)));
                                }
                            }
                        }
                        if Some(i) == fail { Err(make_err(err_id)) } else { Ok(src[i]) }
                    }) { Ok(s) => R::Ok(s.as_ptr() as usize, s.len()), Err(e) => R::InitErr(e) },
                    SM::InitTryFillIter => { let it = LoggedIter { i: 0, n: len, f: |i| if Some(i) == fail { Err(make_err(err_id)) } else { Ok(src[i]) } }; match b.alloc_slice_try_fill_iter(it) { Ok(s) => R::Ok(s.as_ptr() as usize, s.len()), Err(e) => R::InitErr(e) } }
                };
                { let _g = Callback::enter(); drop(src); }
                res
            })
        };
        let r = arena_op(envp, self.step, self.arena, script, || call(&b, m));
        self.bump = Some(b);
        self.note_requests();
        let log = log_take();
        let o = match &r {
            Ok(R::Ok(..)) => Outcome::Ok,
            Ok(R::InitErr(_)) => Outcome::InitErr,
            Ok(R::AllocErr) => Outcome::Err,
            Err(p) => Outcome::Panic(p.clone()),
        };
        self.outcome_bits(&o);
        self.tr(|| format!("{what}::<{:?}>(len {len}, fail_at {:?}) -> {:?}", el, fail, o));
        // ---- callback discipline (C02 / C11)
        let idx_calls: Vec<u64> = log.iter().filter(|x| x.0 == 5 || x.0 == 3).map(|x| x.1).collect();
        let clone_calls: Vec<u64> = log.iter().filter(|x| x.0 == 1).map(|x| x.1).collect();
        let dflt_calls = log.iter().filter(|x| x.0 == 2).count();
        match &o {
            Outcome::Ok => {
                let uses_idx = matches!(m, SM::FillWith | SM::TryFillWith | SM::FillIter | SM::TryFillIter | SM::InitTryFillWith | SM::InitTryFillIter);
                if uses_idx {
                    let want: Vec<u64> = (0..len as u64).collect();
                    if idx_calls != want {
                        self.v(2, "initialiser_order", format!("initialiser_order/{what}"), format!("{what}: initialiser/iterator invoked for indices {:?}, expected 0..{len} once each in order", idx_calls));
                    }
                }
                if matches!(m, SM::Clone | SM::TryClone) && esz > 0 {
                    let want: Vec<u64> = (0..len).map(|i| { let mut x = [0u8; 8]; for j in 0..esz.min(8) { x[j] = pat(tag, step, i * esz + j); } u64::from_le_bytes(x) }).collect();
                    if clone_calls != want {
                        self.v(2, "clone_order", format!("clone_order/{what}"), format!("{what}: Clone invoked {} times (expected {len}, in index order)", clone_calls.len()));
                    }
                }
                if matches!(m, SM::Clone | SM::TryClone | SM::FillClone | SM::TryFillClone) && clone_calls.len() != len {
                    self.v(2, "clone_count", format!("clone_count/{what}"), format!("{what}: Clone invoked {} times for {len} elements", clone_calls.len()));
                }
                if mode == 2 && dflt_calls != len {
                    self.v(2, "default_count", format!("default_count/{what}"), format!("{what}: Default invoked {dflt_calls} times for {len} elements"));
                }
            }
            Outcome::Err | Outcome::Panic(PanicClass::Oom) => {
                if !idx_calls.is_empty() || !clone_calls.is_empty() || dflt_calls != 0 {
                    self.v(11, "initialiser_ran_without_space", format!("initialiser_ran_without_space/{what}"), format!("{what}: reservation failed but user code ran"));
                }
            }
            Outcome::InitErr => {
                let f = fail.unwrap_or(0) as u64;
                let want: Vec<u64> = (0..=f).collect();
                if idx_calls != want {
                    self.v(11, "initialiser_after_error", format!("initialiser_after_error/{what}"), format!("{what}: invoked for {:?}, expected 0..={f}", idx_calls));
                }
            }
            _ => {}
        }
        let kept = kept_cell.get();
        if let Some((ka, kn)) = kept {
            if !self.accept_block("allocation_inside_initialiser", ka, kn, 1, true, None) {
                self.terminal = true;
            }
        }
        let mut err_tok = None;
        match r {
            Ok(R::Ok(a, n)) => {
                if n != len {
                    self.v(2, "wrong_slice_len", format!("wrong_slice_len/{what}"), format!("{what}: returned {n} elements for {len}"));
                }
                let exp = move |j: usize| -> u8 {
                    match mode {
                        0 => pat(tag, step, j),
                        1 => pat(tag, step, j % esz.max(1)),
                        _ => 0xD0D0_5A5Au32.to_le_bytes()[j % 4],
                    }
                };
                if !self.accept_block(what, a, len * esz, ealign, false, Some(&exp)) {
                    self.terminal = true;
                }
            }
            Ok(R::InitErr(e)) => {
                if e.id != err_id {
                    self.v(11, "wrong_error_delivered", format!("wrong_error_delivered/{what}"), format!("{what}: error id {} delivered, {} created", e.id, err_id));
                }
                if drops_count(err_id) != 0 {
                    self.v(11, "error_dropped_inside_arena", format!("error_dropped_inside_arena/{what}"), format!("{what}: error dropped before delivery"));
                }
                err_tok = Some(e);
            }
            _ => {}
        }
        let size_total = len.checked_mul(esz);
        if let Some(sz) = size_total {
            self.check_fit_promise(what, &pre, sz, ealign, &if o == Outcome::InitErr { Outcome::Ok } else { o.clone() });
        }
        let post = self.generic_post(what, &pre, pl, false);
        if let Some(e) = err_tok.take() {
            {
                let _g = Callback::enter();
                drop(e);
            }
            if drops_count(err_id) != 1 {
                self.v(11, "error_drop_count", format!("error_drop_count/{what}"), format!("{what}: error dropped {} times in total", drops_count(err_id)));
            }
            let forced_new = self.e().live_count(self.arena) > pl.0;
            if forced_new {
                self.cov |= cov::INIT_ERR_NEWCHUNK;
            }
            if post.cap == pre.cap && !forced_new {
                self.cov |= cov::REWIND;
            }
            if let (Some((ka, kn)), true) = (kept, self.judge) {
                let b = self.bump.take().unwrap();
                let big = size_total.unwrap_or(0).min(4096) + 40;
                let r3 = arena_op(envp, self.step, self.arena, &[], || b.try_alloc_slice_fill_copy(big, 0x5Au8).map(|p| p.as_ptr() as usize).ok());
                self.bump = Some(b);
                if let Ok(Some(addr)) = r3 {
                    {
                        // the later slice was initialised by the arena: every live block (the kept one included) must still read back
                        let (p2, l2) = (self.observe(), (self.e().live_count(self.arena), self.e().live_bytes(self.arena)));
                        let _ = self.generic_post("allocation_after_failed_init", &p2, l2, false);
                    }
                    if addr < ka + kn && ka < addr + big {
                        self.v(11, "kept_block_overwritten_later", format!("kept_block_overwritten_later/{what}"), format!("{what}: the initialiser allocated and kept [rel {},+{kn}) and a later element failed; a following request of {big} bytes was placed at rel {}, on top of it", self.rel(ka), self.rel(addr)));
                        self.v(1, "overlaps_live_block", format!("overlaps_live_block/after_{what}"), format!("{what}: a block kept by the failed initialiser was handed out again"));
                    } else {
                        self.accept_block("allocation_after_failed_init", addr, big, 1, true, None);
                    }
                }
                self.terminal = true;
                self.cov |= cov::PROBE;
            }
            if self.judge && size_total.is_some() && kept.is_none() && inner == Inner::Nothing {
                // residue probe (the slice initialiser allocates nothing)
                self.terminal = true;
                self.cov |= cov::PROBE;
                let l = Layout::from_size_align(size_total.unwrap(), ealign).unwrap();
                let b = self.bump.take().unwrap();
                let r2 = arena_op(envp, self.step, self.arena, &[], || b.try_alloc_layout(l).map(|p| p.as_ptr() as usize).ok());
                self.bump = Some(b);
                let n2 = self.e().reqs.len();
                match r2 {
                    Ok(Some(a)) => {
                        if n2 != 0 {
                            self.v(11, "failed_value_space_not_reusable", format!("failed_value_space_not_reusable/{what}/new_chunk={forced_new}"), format!("{what}: same-layout request after failed fill asked the global allocator"));
                        }
                        self.accept_block("same_layout_after_failed_init", a, l.size(), l.align(), true, None);
                    }
                    _ => self.v(11, "failed_value_space_not_reusable", format!("failed_value_space_not_reusable/{what}/new_chunk={forced_new}"), format!("{what}: same-layout request after failed fill failed")),
                }
            }
        }
        if matches!(o, Outcome::Err | Outcome::Panic(_)) {
            let fallible = m.fallible();
            let tm = twin_sm(m);
            if let Some(tm) = tm {
                let mut twin = |b: &Bump<M>| match call(b, tm) {
                    R::Ok(..) => Outcome::Ok,
                    R::AllocErr => Outcome::Err,
                    R::InitErr(_) => Outcome::InitErr,
                };
                self.judge_failure(what, fallible, &o, &pre, &post, pl, script, &mut twin);
            }
            if c09_probe {
                self.probe_fits(what, &pre);
            }
        }
        self.finish(&post, &o);
    }
}

fn twin_sm(m: SM) -> Option<SM> {
    Some(match m {
        SM::Copy => SM::TryCopy,
        SM::TryCopy => SM::Copy,
        SM::Clone => SM::TryClone,
        SM::TryClone => SM::Clone,
        SM::FillWith => SM::TryFillWith,
        SM::TryFillWith => SM::FillWith,
        SM::FillCopy => SM::TryFillCopy,
        SM::TryFillCopy => SM::FillCopy,
        SM::FillClone => SM::TryFillClone,
        SM::TryFillClone => SM::FillClone,
        SM::FillDefault => SM::TryFillDefault,
        SM::TryFillDefault => SM::FillDefault,
        SM::FillIter => SM::TryFillIter,
        SM::TryFillIter => SM::FillIter,
        SM::InitTryFillWith | SM::InitTryFillIter => return None,
    })
}

#[allow(dead_code)]
fn _unused(_: Blk) {}

// ------------------------------------------------------------------------------------------
// uniform sub-model (C10 exactness)
// ------------------------------------------------------------------------------------------

macro_rules! with_uni {
    ($al:expr, $T:ident, $NZ:ident => $body:expr) => {
        match $al {
            0 => { type $T = u8; type $NZ = std::num::NonZeroU8; $body }
            1 => { type $T = u16; type $NZ = std::num::NonZeroU16; $body }
            2 => { type $T = u32; type $NZ = std::num::NonZeroU32; $body }
            3 => { type $T = u64; type $NZ = std::num::NonZeroU64; $body }
            _ => { type $T = u128; type $NZ = std::num::NonZeroU128; $body }
        }
    };
}

impl<const M: usize> World<M> {
    pub fn do_uni_try_with(&mut self, al: u8, ok: bool, fallible: bool, script: &[Answer]) {
        let what: &'static str = if fallible { "try_alloc_try_with(uniform)" } else { "alloc_try_with(uniform)" };
        let (pre, pl) = self.pre();
        let a = 1usize << al;
        let envp = self.env;
        let b = self.bump.take().unwrap();
        // Ok(addr) / Err(true)=init error / Err(false)=alloc error
        let r = arena_op(envp, self.step, self.arena, script, || -> Result<usize, bool> {
            with_uni!(al, T, NZ => {
                assert_eq!(std::mem::size_of::<Result<NZ, ()>>(), a);
                assert_eq!(std::mem::align_of::<Result<NZ, ()>>(), a);
                let v: NZ = NZ::new(T::MAX - 7).unwrap();
                let init = || -> Result<NZ, ()> { if ok { Ok(v) } else { Err(()) } };
                if fallible {
                    match b.try_alloc_try_with(init) { Ok(r) => Ok(r as *mut NZ as usize), Err(bumpalo::AllocOrInitError::Init(())) => Err(true), Err(_) => Err(false) }
                } else {
                    match b.alloc_try_with(init) { Ok(r) => Ok(r as *mut NZ as usize), Err(()) => Err(true) }
                }
            })
        });
        self.bump = Some(b);
        self.note_requests();
        let o = match &r {
            Ok(Ok(_)) => Outcome::Ok,
            Ok(Err(true)) => Outcome::InitErr,
            Ok(Err(false)) => Outcome::Err,
            Err(p) => Outcome::Panic(p.clone()),
        };
        self.outcome_bits(&o);
        self.tr(|| format!("{what} align {a} ok={ok} -> {:?}", o));
        if let Ok(Ok(addr)) = r {
            if !self.accept_block(what, addr, a, a, false, None) {
                self.terminal = true;
            }
        }
        let post = self.generic_post(what, &pre, pl, false);
        self.finish(&post, &o);
    }

    pub fn do_uni_slice_fail(&mut self, al: u8, len: u8, fail_at: u8, script: &[Answer]) {
        let what = "alloc_slice_try_fill_with(uniform)";
        let (pre, pl) = self.pre();
        let a = 1usize << al;
        let n = len as usize;
        let envp = self.env;
        let b = self.bump.take().unwrap();
        let r = arena_op(envp, self.step, self.arena, script, || -> Result<usize, ()> {
            with_uni!(al, T, NZ => {
                let _ = std::marker::PhantomData::<NZ>;
                match b.alloc_slice_try_fill_with::<T, _, ()>(n, |i| if i == fail_at as usize { Err(()) } else { Ok(T::MAX - i as T) }) {
                    Ok(s) => Ok(s.as_ptr() as usize),
                    Err(()) => Err(()),
                }
            })
        });
        self.bump = Some(b);
        self.note_requests();
        let o = match &r {
            Ok(Ok(_)) => Outcome::Ok,
            Ok(Err(())) => Outcome::InitErr,
            Err(p) => Outcome::Panic(p.clone()),
        };
        self.outcome_bits(&o);
        self.tr(|| format!("{what} align {a} len {n} fail_at {fail_at} -> {:?}", o));
        if let Ok(Ok(addr)) = r {
            if !self.accept_block(what, addr, a * n, a, false, None) {
                self.terminal = true;
            }
        }
        let post = self.generic_post(what, &pre, pl, false);
        self.finish(&post, &o);
    }

    /// C10 exactness: when every allocation has alignment `a` and a size multiple of it, the iterated
    /// slices are exactly the allocated objects, newest first, nothing before/between/after.
    pub fn check_exact(&mut self, a: usize) {
        if !self.judge {
            return;
        }
        let p = self.observe();
        if !p.iter_ok || p.nchunks > super::world::MAX_CHUNKS_OBS {
            return;
        }
        // expected: live blocks in reverse allocation order (live is in allocation order)
        let mut idx = self.live.len();
        for c in 0..p.nchunks {
            let (ptr, len) = p.chunks[c];
            let mut at = ptr;
            while at < ptr + len {
                if idx == 0 {
                    self.v(10, "iterated_bytes_not_objects", "iterated_bytes_not_objects/extra_bytes".into(), format!("uniform align {a}: chunk slice {c} [rel {},+{len}) has {} byte(s) at rel {} that belong to no allocated object", self.rel(ptr), ptr + len - at, self.rel(at)));
                    return;
                }
                let b = self.live[idx - 1];
                if b.size == 0 {
                    idx -= 1;
                    continue;
                }
                if b.addr != at {
                    let kind = if b.addr > at && b.addr < ptr + len { "gap_or_order" } else { "extra_bytes" };
                    self.v(10, "iterated_bytes_not_objects", format!("iterated_bytes_not_objects/{kind}"), format!("uniform align {a}: in chunk slice {c} [rel {},+{len}) offset {} should start the next most recent object (rel {}, {} bytes)", self.rel(ptr), at - ptr, self.rel(b.addr), b.size));
                    return;
                }
                at += b.size;
                idx -= 1;
            }
            if at != ptr + len {
                self.v(10, "iterated_bytes_not_objects", "iterated_bytes_not_objects/object_crosses_slice_end".into(), format!("uniform align {a}: an object extends past the end of chunk slice {c}"));
                return;
            }
        }
        while idx > 0 && self.live[idx - 1].size == 0 {
            idx -= 1;
        }
        if idx != 0 {
            self.v(10, "iterated_bytes_not_objects", "iterated_bytes_not_objects/object_missing".into(), format!("uniform align {a}: {idx} allocated object(s) do not appear in the iterated slices"));
        }
    }
}

// ------------------------------------------------------------------------------------------
// C16: panicking initialisers / Clone / Default / iterators inside arena methods
// ------------------------------------------------------------------------------------------

pub const PANIC_CB_NAMES: [&str; 16] = [
    "alloc_with", "try_alloc_with", "alloc_try_with", "try_alloc_try_with", "alloc_slice_fill_with", "try_alloc_slice_fill_with", "alloc_slice_fill_clone", "alloc_slice_clone",
    "alloc_slice_fill_iter", "alloc_slice_fill_default", "alloc_slice_try_fill_with", "alloc_slice_try_fill_iter", "try_alloc_slice_clone", "try_alloc_slice_fill_iter",
    // the initialiser itself allocates in the arena (and keeps the blocks) before it panics
    "alloc_slice_fill_with+inner_allocs", "alloc_slice_fill_iter+inner_allocs",
];

struct PanicDefault(#[allow(dead_code)] crate::coll::elem::D);
impl Default for PanicDefault {
    fn default() -> Self {
        crate::coll::elem::tick(crate::coll::elem::K_INIT, 0);
        PanicDefault(crate::coll::elem::D::new(0, 7000, 0))
    }
}

impl<const M: usize> World<M> {
    pub fn do_panic_cb(&mut self, which: u8, len: usize, at: u8) {
        use crate::coll::elem::{arm_fault, disarm_fault, drop_count, dropped, tick, D, K_CLONE, K_INIT, K_ITER};
        let what: &'static str = PANIC_CB_NAMES[which as usize];
        let (pre, pl) = self.pre();
        let envp = self.env;
        let base_label = 5000 + self.step * 100;
        let b = self.bump.take().unwrap();
        // source values for the clone flavours live in harness memory
        let srcv: Vec<D> = {
            let _g = Callback::enter();
            (0..len).map(|i| D::new(0, base_label + 50 + i as u32, 1)).collect()
        };
        let one = D::new(0, base_label + 49, 1);
        let kinds = match which {
            6 | 7 | 12 => K_CLONE,
            8 | 11 | 13 => K_ITER,
            _ => K_INIT,
        };
        let kinds = if which == 15 { K_ITER } else { kinds };
        arm_fault(kinds, at as u32);
        let drops_before = dropped(0).len();
        let kept_cells: [std::cell::Cell<usize>; 4] = Default::default();
        let r = arena_op(envp, self.step, self.arena, &[], || {
            let mk = |i: usize| {
                tick(K_INIT, 0);
                D::new(0, base_label + i as u32, 1)
            };
            // an initialiser that allocates 96 bytes in the same arena for each of its first four elements
            let inner_alloc = |i: usize| {
                if i < 4 {
                    let _r = Reenter::enter();
                    if let Ok(p) = b.try_alloc_layout(Layout::from_size_align(96, 1).unwrap()) {
                        kept_cells[i].set(p.as_ptr() as usize);
                    }
                }
            };
            match which {
                14 => { b.alloc_slice_fill_with(len, |i| { inner_alloc(i); mk(i) }); }
                15 => { b.alloc_slice_fill_iter(LoggedIter { i: 0, n: len, f: |i| { inner_alloc(i); tick(K_ITER, 0); D::new(0, base_label + i as u32, 1) } }); }
                0 => { b.alloc_with(|| mk(0)); }
                1 => { let _ = b.try_alloc_with(|| mk(0)); }
                2 => { let _ = b.alloc_try_with(|| -> Result<D, ()> { Ok(mk(0)) }); }
                3 => { let _ = b.try_alloc_try_with(|| -> Result<D, ()> { Ok(mk(0)) }); }
                4 => { b.alloc_slice_fill_with(len, mk); }
                5 => { let _ = b.try_alloc_slice_fill_with(len, mk); }
                6 => { b.alloc_slice_fill_clone(len, &one); }
                7 => { b.alloc_slice_clone(&srcv); }
                8 => { b.alloc_slice_fill_iter(LoggedIter { i: 0, n: len, f: |i| { tick(K_ITER, 0); D::new(0, base_label + i as u32, 1) } }); }
                9 => { b.alloc_slice_fill_default::<PanicDefault>(len); }
                10 => { let _ = b.alloc_slice_try_fill_with(len, |i| -> Result<D, ()> { Ok(mk(i)) }); }
                11 => { let _ = b.alloc_slice_try_fill_iter(LoggedIter { i: 0, n: len, f: |i| -> Result<D, ()> { tick(K_ITER, 0); Ok(D::new(0, base_label + i as u32, 1)) } }); }
                12 => { let _ = b.try_alloc_slice_clone(&srcv); }
                _ => { let _ = b.try_alloc_slice_fill_iter(LoggedIter { i: 0, n: len, f: |i| { tick(K_ITER, 0); D::new(0, base_label + i as u32, 1) } }); }
            }
        });
        let fired = !disarm_fault();
        let _ = disarm_fault();
        self.bump = Some(b);
        self.note_requests();
        let _ = log_take();
        self.tr(|| format!("{what}(len {len}) with the callback panicking at invocation {at}: fired={fired} result={:?}", r.as_ref().err()));
        // whatever was written into the arena before the panic is leaked: the arena never runs destructors
        let arena_dropped: Vec<u32> = dropped(0)[..].iter().copied().filter(|l| *l >= base_label && *l < base_label + 50).collect();
        let _ = drops_before;
        if !arena_dropped.is_empty() {
            self.v(16, "arena_dropped_values", format!("arena_dropped_values/{what}"), format!("{what}: values {:?} written into the arena were dropped by the arena", arena_dropped));
        }
        for l in &arena_dropped {
            if drop_count(0, *l) > 1 {
                self.v(16, "double_drop", format!("double_drop/{what}"), format!("{what}: value {l} dropped twice"));
            }
        }
        // blocks the initialiser allocated stay the caller's
        for c in kept_cells.iter() {
            if c.get() != 0 && !self.accept_block("allocation_inside_initialiser", c.get(), 96, 1, true, None) {
                self.terminal = true;
            }
        }
        match (&r, fired) {
            (Err(PanicClass::Injected), true) | (Ok(()), false) => {}
            (Err(p), _) if !matches!(p, PanicClass::Oom) => self.v(16, "unexpected_panic", format!("unexpected_panic/{what}"), format!("{what}: {:?}", p)),
            _ => {}
        }
        self.cov |= if fired { cov::PANIC_OTHER } else { cov::OK_FAST };
        // ---- the arena must still be consistent and usable
        let nv = self.viol.len();
        let judge = self.judge;
        self.judge = true;
        let post = self.generic_post(what, &pre, pl, false);
        let extra: Vec<crate::mc::Violation> = self.viol.drain(nv..).collect();
        self.judge = judge;
        for x in extra {
            // accounting "changed without ledger change" is expected to hold too; everything is reported under C16
            self.v(16, "arena_inconsistent_after_panic", format!("arena_inconsistent_after_panic/{what}/{}", x.clause), format!("after the caught panic: [{}] {}", x.clause, x.detail));
            self.v(x.prop, x.clause, x.key, x.detail);
        }
        if self.judge {
            let b = self.bump.take().unwrap();
            if which >= 14 {
                // a larger slice the arena initialises: it must not land on the blocks the initialiser kept
                let r3 = arena_op(envp, self.step, self.arena, &[], || b.try_alloc_slice_fill_copy(400, 0x5Au8).map(|p| p.as_ptr() as usize).ok());
                if let Ok(Some(a3)) = r3 {
                    self.bump = Some(b);
                    if !self.accept_block("alloc_after_caught_panic", a3, 400, 1, true, None) {
                        self.v(16, "arena_unusable_after_panic", format!("arena_unusable_after_panic/{what}"), format!("{what}: a slice allocated after the caught panic overlaps memory the caller still owns"));
                    }
                    let (p2, l2) = (self.observe(), (self.e().live_count(self.arena), self.e().live_bytes(self.arena)));
                    let nv2 = self.viol.len();
                    let _ = self.generic_post("alloc_after_caught_panic", &p2, l2, false);
                    if self.viol.len() > nv2 {
                        self.v(16, "arena_unusable_after_panic", format!("arena_unusable_after_panic/{what}/live_block_changed"), format!("{what}: after the caught panic a new allocation changed a block the initialiser had allocated"));
                    }
                    let b2 = self.bump.take().unwrap();
                    self.bump = Some(b2);
                } else {
                    self.bump = Some(b);
                }
            } else {
                self.bump = Some(b);
            }
            let b = self.bump.take().unwrap();
            let r2 = arena_op(envp, self.step, self.arena, &[], || b.try_alloc_layout(Layout::from_size_align(8, 8).unwrap()).map(|p| p.as_ptr() as usize).ok());
            self.bump = Some(b);
            match r2 {
                Ok(Some(a)) => {
                    if !self.accept_block("alloc_after_caught_panic", a, 8, 8, true, None) {
                        self.v(16, "arena_unusable_after_panic", format!("arena_unusable_after_panic/{what}"), format!("{what}: the block returned after the caught panic is not usable"));
                    }
                }
                _ => self.v(16, "arena_unusable_after_panic", format!("arena_unusable_after_panic/{what}"), format!("{what}: an 8-byte request failed after the caught panic")),
            }
            self.terminal = true;
        }
        {
            let _g = Callback::enter();
            drop(srcv);
            drop(one);
        }
        self.finish(&post, &if fired { Outcome::Panic(PanicClass::Injected) } else { Outcome::Ok });
    }
}
