//! The arena model: real `Bump<M>` objects driven by histories, with a shadow state and the
//! oracles of C01–C04, C06–C12 (DESIGN.md §3.5, §4).

pub mod types;
pub mod world;
pub mod ops;
pub mod model;

pub use model::{ArenaModel, Profile};
