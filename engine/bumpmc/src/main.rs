//! bumpmc — bounded-exhaustive explorer for bumpalo (see /verif/DESIGN.md).


use bumpmc::*;
use std::collections::{HashMap, HashSet};

fn arg_map(args: &[String]) -> HashMap<String, String> {
    let mut m = HashMap::new();
    let mut i = 0;
    while i < args.len() {
        if let Some(k) = args[i].strip_prefix("--") {
            if i + 1 < args.len() && !args[i + 1].starts_with("--") {
                m.insert(k.to_string(), args[i + 1].clone());
                i += 2;
            } else {
                m.insert(k.to_string(), "1".to_string());
                i += 1;
            }
        } else {
            i += 1;
        }
    }
    m
}

fn profile_of(s: &str) -> arena::Profile {
    use arena::Profile::*;
    match s {
        "core" => Core,
        "ledger" => Ledger,
        "reset" => Reset,
        "limit" => Limit,
        "fallible" => Fallible,
        "init" => Init,
        "allocapi" => AllocApi,
        "capprobe" => CapProbe,
        "layera" => LayerA,
        "uniform" => Uniform,
        "panics" => Panics,
        "apisweep" => ApiSweep,
        "deep" => Deep,
        "deephop" => DeepHop,
        "scale" => Scale,
        _ => {
            eprintln!("MACHINERY: unknown profile {s}");
            std::process::exit(2)
        }
    }
}

pub fn report_json(rep: &mc::Report, extra: serde_json::Value) -> serde_json::Value {
    let viols: Vec<serde_json::Value> = rep
        .violations
        .iter()
        .map(|v| {
            serde_json::json!({
                "property": format!("C{:02}", v.v.prop), "clause": v.v.clause, "key": v.v.key, "detail": v.v.detail,
                "hist_hex": v.hist_hex, "history": v.described, "depth": v.depth, "deviations": v.devs,
            })
        })
        .collect();
    let cov: serde_json::Map<String, serde_json::Value> = rep.cov.iter().map(|(k, v)| (k.clone(), serde_json::json!(v))).collect();
    serde_json::json!({
        "states": rep.states, "transitions": rep.transitions, "executions": rep.executions,
        "depth_completed": rep.depth_completed, "level_sizes": rep.level_sizes,
        "partial_level": rep.partial_level.map(|(l, d, n)| serde_json::json!({"level": l, "expanded": d, "of": n})),
        "caps_hit": rep.caps_hit, "coverage_events": cov, "distinct_outcomes": rep.distinct_outcomes,
        "violations": viols, "violations_total": rep.violations_total, "skipped_crash": rep.skipped_crash,
        "samples": rep.samples, "wall_s": rep.wall_s, "extra": extra,
    })
}

fn load_skip(path: Option<&String>) -> HashSet<u64> {
    let mut s = HashSet::new();
    if let Some(p) = path {
        if let Ok(t) = std::fs::read_to_string(p) {
            for l in t.lines() {
                let l = l.trim();
                if !l.is_empty() {
                    s.insert(mc::hist_hash_bytes(&journal::from_hex(l)));
                }
            }
        }
    }
    s
}

fn run_generic<M: mc::Model>(model: &M, replay: bool, a: &HashMap<String, String>, threads: usize, slab_bytes: usize, depth: usize, extra: serde_json::Value) {
    if replay {
        let bytes = journal::from_hex(a.get("hex").expect("--hex"));
        let h = mc::Hist::<M::Cfg, M::Act>::from_bytes(&bytes).unwrap_or_else(|| {
            eprintln!("MACHINERY: history bytes have the wrong length");
            std::process::exit(2)
        });
        let mut w = mc::Worker { idx: 0, env: env::ExecEnv::new(slab_bytes) };
        journal::set_worker(0);
        journal::install_altstack();
        env::attach(&mut *w.env as *mut env::ExecEnv);
        journal::record(&h);
        println!("{}", serde_json::to_string(&serde_json::json!({"replaying": model.describe(&h)})).unwrap());
        let out = model.run(&mut w, &h, false);
        let viols: Vec<serde_json::Value> = out.violations.iter().map(|v| serde_json::json!({"property": format!("C{:02}", v.prop), "clause": v.clause, "key": v.key, "detail": v.detail})).collect();
        let j = serde_json::json!({"history": model.describe(&h), "trace": [], "violations": viols, "key": format!("{:032x}", out.key)});
        println!("{}", serde_json::to_string_pretty(&j).unwrap());
        return;
    }
    let prop: u32 = a.get("prop").map(|s| s.parse().unwrap()).unwrap_or(0);
    let p = mc::Params {
        max_depth: depth,
        max_devs: 0,
        threads,
        budget_s: a.get("budget-s").map(|s| s.parse().unwrap()).unwrap_or(40.0),
        max_rss_bytes: a.get("max-rss-gb").map(|s| s.parse::<usize>().unwrap()).unwrap_or(20) << 30,
        prop_mask: if prop == 0 { u32::MAX } else { 1 << prop },
        slab_bytes,
        emergency_out: a.get("out").cloned(),
        max_violations: 40,
        skip: load_skip(a.get("skip")),
        max_states_per_level: a.get("max-level").map(|s| s.parse().unwrap()).unwrap_or(3_000_000),
                keep_keys: false,
    };
    let rep = mc::explore(model, &p);
    let j = report_json(&rep, extra);
    let out = a.get("out").cloned().unwrap_or("/dev/stdout".into());
    std::fs::write(&out, serde_json::to_string_pretty(&j).unwrap()).unwrap();
}

fn main() {
    let args: Vec<String> = std::env::args().collect();
    if args.len() < 2 {
        eprintln!("usage: bumpmc <arena|replay-arena|selftest> [--opts]");
        std::process::exit(2);
    }
    let a = arg_map(&args[2..]);
    util::install_panic_hook();
    util::init_pristine();
    let threads: usize = a.get("threads").map(|s| s.parse().unwrap()).unwrap_or_else(|| std::thread::available_parallelism().map(|n| n.get()).unwrap_or(8).min(32));
    let slab_bytes: usize = a.get("slab-mb").map(|s| s.parse::<usize>().unwrap() << 20).unwrap_or(8 << 20);
    match args[1].as_str() {
        "arena" => {
            env::init_region((threads + 2) * env::MAX_ARENAS * (slab_bytes + env::SLAB_ALIGN));
            journal::install(a.get("dump").map(|s| s.as_str()));
            journal::spawn_watchdog(a.get("stall-s").map(|s| s.parse().unwrap()).unwrap_or(20));
            util::env_selftest(slab_bytes);
            let thorough = a.get("tier").map(|s| s == "thorough").unwrap_or(false);
            let profile = profile_of(a.get("profile").map(|s| s.as_str()).unwrap_or("core"));
            let depth: usize = a.get("depth").map(|s| s.parse().unwrap()).unwrap_or(3);
            let mas: Vec<u8> = a.get("min-aligns").map(|s| s.split(',').map(|x| x.parse().unwrap()).collect()).unwrap_or(vec![1, 2, 4, 8, 16]);
            let model = arena::ArenaModel { profile, thorough, min_aligns: mas, max_depth: depth };
            let prop: u32 = a.get("prop").map(|s| s.parse().unwrap()).unwrap_or(0);
            let p = mc::Params {
                max_depth: depth,
                max_devs: a.get("devs").map(|s| s.parse().unwrap()).unwrap_or(1),
                threads,
                budget_s: a.get("budget-s").map(|s| s.parse().unwrap()).unwrap_or(40.0),
                max_rss_bytes: a.get("max-rss-gb").map(|s| s.parse::<usize>().unwrap()).unwrap_or(20) << 30,
                prop_mask: if prop == 0 { u32::MAX } else { 1 << prop },
                slab_bytes,
                emergency_out: a.get("out").cloned(),
                max_violations: 40,
                skip: load_skip(a.get("skip")),
                max_states_per_level: a.get("max-level").map(|s| s.parse().unwrap()).unwrap_or(3_000_000),
                keep_keys: false,
            };
            let rep = mc::explore(&model, &p);
            let j = report_json(&rep, serde_json::json!({"engine": "arena", "profile": format!("{:?}", profile), "thorough": thorough, "max_depth": depth, "max_devs": p.max_devs, "threads": threads}));
            let out = a.get("out").cloned().unwrap_or("/dev/stdout".into());
            std::fs::write(&out, serde_json::to_string_pretty(&j).unwrap()).unwrap();
        }
        "grid" | "replay-grid" => {
            let replay = args[1] == "replay-grid";
            env::init_region((threads + 2) * env::MAX_ARENAS * (slab_bytes + env::SLAB_ALIGN));
            journal::install(a.get("dump").map(|s| s.as_str()));
            journal::spawn_watchdog(a.get("stall-s").map(|s| s.parse().unwrap()).unwrap_or(60));
            let kind = match a.get("kind").map(|s| s.as_str()).unwrap_or("ctor") {
                "ctor" => grid::GridKind::CtorMatrix,
                "capacity" => grid::GridKind::Capacity,
                "growth" => grid::GridKind::Growth,
                "overflow" => grid::GridKind::Overflow,
                "decoders" => grid::GridKind::Decoders,
                "vecgrowth" => grid::GridKind::VecGrowth,
                "crossarena" => grid::GridKind::CrossArena,
                "retry" => grid::GridKind::Retry,
                "box" => grid::GridKind::BoxChains,
                k => {
                    eprintln!("MACHINERY: unknown grid kind {k}");
                    std::process::exit(2)
                }
            };
            let thorough = a.get("tier").map(|s| s == "thorough").unwrap_or(false);
            let model = grid::GridModel { kind, thorough };
            if replay {
                let bytes = journal::from_hex(a.get("hex").expect("--hex"));
                let h = mc::Hist::<u8, grid::Case>::from_bytes(&bytes).unwrap_or_else(|| {
                    eprintln!("MACHINERY: history bytes have the wrong length");
                    std::process::exit(2)
                });
                let mut w = mc::Worker { idx: 0, env: env::ExecEnv::new(slab_bytes) };
                journal::set_worker(0);
                journal::install_altstack();
                env::attach(&mut *w.env as *mut env::ExecEnv);
                journal::record(&h);
                println!("{}", serde_json::to_string(&serde_json::json!({"replaying": mc::Model::describe(&model, &h)})).unwrap());
                let out = mc::Model::run(&model, &mut w, &h, false);
                let viols: Vec<serde_json::Value> = out.violations.iter().map(|v| serde_json::json!({"property": format!("C{:02}", v.prop), "clause": v.clause, "key": v.key, "detail": v.detail})).collect();
                let j = serde_json::json!({"history": mc::Model::describe(&model, &h), "trace": [], "violations": viols, "key": format!("{:032x}", out.key)});
                println!("{}", serde_json::to_string_pretty(&j).unwrap());
                return;
            }
            let prop: u32 = a.get("prop").map(|s| s.parse().unwrap()).unwrap_or(0);
            let p = mc::Params {
                max_depth: 1,
                max_devs: 0,
                threads,
                budget_s: a.get("budget-s").map(|s| s.parse().unwrap()).unwrap_or(60.0),
                max_rss_bytes: a.get("max-rss-gb").map(|s| s.parse::<usize>().unwrap()).unwrap_or(20) << 30,
                prop_mask: if prop == 0 { u32::MAX } else { 1 << prop },
                slab_bytes,
                emergency_out: a.get("out").cloned(),
                max_violations: 40,
                skip: load_skip(a.get("skip")),
                max_states_per_level: usize::MAX,
                keep_keys: false,
            };
            let rep = mc::explore(&model, &p);
            let inputs = grid::INPUTS.load(std::sync::atomic::Ordering::Relaxed);
            let j = report_json(&rep, serde_json::json!({"engine": "grid", "kind": format!("{:?}", kind), "thorough": thorough, "threads": threads, "inputs_checked_inside_cases": inputs}));
            let out = a.get("out").cloned().unwrap_or("/dev/stdout".into());
            std::fs::write(&out, serde_json::to_string_pretty(&j).unwrap()).unwrap();
        }
        "pair" | "replay-pair" => {
            let replay = args[1] == "replay-pair";
            env::init_region((threads + 2) * env::MAX_ARENAS * (slab_bytes + env::SLAB_ALIGN));
            journal::install(a.get("dump").map(|s| s.as_str()));
            journal::spawn_watchdog(a.get("stall-s").map(|s| s.parse().unwrap()).unwrap_or(20));
            pair::install_hook();
            let thorough = a.get("tier").map(|s| s == "thorough").unwrap_or(false);
            let depth: usize = a.get("depth").map(|s| s.parse().unwrap()).unwrap_or(4);
            let model = pair::PairModel { thorough, max_depth: depth, huge: a.get("huge").map(|s| s == "1").unwrap_or(false) };
            if replay {
                let bytes = journal::from_hex(a.get("hex").expect("--hex"));
                let h = mc::Hist::<pair::PCfg, pair::PAct>::from_bytes(&bytes).unwrap_or_else(|| {
                    eprintln!("MACHINERY: history bytes have the wrong length");
                    std::process::exit(2)
                });
                let mut w = mc::Worker { idx: 0, env: env::ExecEnv::new(slab_bytes) };
                journal::set_worker(0);
                journal::install_altstack();
                env::attach(&mut *w.env as *mut env::ExecEnv);
                journal::record(&h);
                println!("{}", serde_json::to_string(&serde_json::json!({"replaying": mc::Model::describe(&model, &h)})).unwrap());
                let out = mc::Model::run(&model, &mut w, &h, false);
                let viols: Vec<serde_json::Value> = out.violations.iter().map(|v| serde_json::json!({"property": format!("C{:02}", v.prop), "clause": v.clause, "key": v.key, "detail": v.detail})).collect();
                let j = serde_json::json!({"history": mc::Model::describe(&model, &h), "trace": [], "violations": viols, "key": format!("{:032x}", out.key)});
                println!("{}", serde_json::to_string_pretty(&j).unwrap());
                return;
            }
            let prop: u32 = a.get("prop").map(|s| s.parse().unwrap()).unwrap_or(0);
            let p = mc::Params {
                max_depth: depth,
                max_devs: a.get("devs").map(|s| s.parse().unwrap()).unwrap_or(0),
                threads,
                budget_s: a.get("budget-s").map(|s| s.parse().unwrap()).unwrap_or(40.0),
                max_rss_bytes: a.get("max-rss-gb").map(|s| s.parse::<usize>().unwrap()).unwrap_or(20) << 30,
                prop_mask: if prop == 0 { u32::MAX } else { 1 << prop },
                slab_bytes,
                emergency_out: a.get("out").cloned(),
                max_violations: 40,
                skip: load_skip(a.get("skip")),
                max_states_per_level: a.get("max-level").map(|s| s.parse().unwrap()).unwrap_or(3_000_000),
                keep_keys: false,
            };
            let rep = mc::explore(&model, &p);
            let j = report_json(&rep, serde_json::json!({"engine": "pair", "max_devs": p.max_devs, "thorough": thorough, "max_depth": depth, "threads": threads}));
            let out = a.get("out").cloned().unwrap_or("/dev/stdout".into());
            std::fs::write(&out, serde_json::to_string_pretty(&j).unwrap()).unwrap();
        }
        "vec" | "replay-vec" => {
            let replay = args[1] == "replay-vec";
            env::init_region((threads + 2) * env::MAX_ARENAS * (slab_bytes + env::SLAB_ALIGN));
            journal::install(a.get("dump").map(|s| s.as_str()));
            journal::spawn_watchdog(a.get("stall-s").map(|s| s.parse().unwrap()).unwrap_or(20));
            let thorough = a.get("tier").map(|s| s == "thorough").unwrap_or(false);
            let depth: usize = a.get("depth").map(|s| s.parse().unwrap()).unwrap_or(4);
            let max_len: usize = a.get("max-len").map(|s| s.parse().unwrap()).unwrap_or(4);
            let mode = if a.get("mode").map(|s| s == "faults").unwrap_or(false) { coll::vecmodel::VMode::Faults } else { coll::vecmodel::VMode::Diff };
            let container: u8 = a.get("container").map(|s| if s == "api2" { 1 } else { 0 }).unwrap_or(0);
            let model = coll::vecmodel::VecModel { container, mode, thorough, max_len, max_depth: depth };
            run_generic(&model, replay, &a, threads, slab_bytes, depth, serde_json::json!({"engine": "vec", "mode": format!("{:?}", mode), "max_len": max_len, "max_depth": depth, "thorough": thorough}));
        }
        "str" | "replay-str" => {
            let replay = args[1] == "replay-str";
            env::init_region((threads + 2) * env::MAX_ARENAS * (slab_bytes + env::SLAB_ALIGN));
            journal::install(a.get("dump").map(|s| s.as_str()));
            journal::spawn_watchdog(a.get("stall-s").map(|s| s.parse().unwrap()).unwrap_or(20));
            let thorough = a.get("tier").map(|s| s == "thorough").unwrap_or(false);
            let depth: usize = a.get("depth").map(|s| s.parse().unwrap()).unwrap_or(3);
            let max_chars: usize = a.get("max-len").map(|s| s.parse().unwrap()).unwrap_or(3);
            let mode = if a.get("mode").map(|s| s == "faults").unwrap_or(false) { coll::strmodel::SMode::Faults } else { coll::strmodel::SMode::Diff };
            let model = coll::strmodel::StrModel { mode, thorough, max_chars, max_depth: depth };
            run_generic(&model, replay, &a, threads, slab_bytes, depth, serde_json::json!({"engine": "str", "mode": format!("{:?}", mode), "max_chars": max_chars, "max_depth": depth, "thorough": thorough}));
        }
        "isolation" | "isolation-child" | "replay-isolation" => {
            // C20 across processes (see pair.rs): parent spawns one fresh child per prefix history
            let thorough = a.get("tier").map(|s| s == "thorough").unwrap_or(false);
            let model = pair::PairModel { thorough, max_depth: 8, huge: false };
            let ms: Vec<u8> = vec![1, 16];
            if args[1] == "isolation-child" {
                env::init_region(4 * env::MAX_ARENAS * (slab_bytes + env::SLAB_ALIGN));
                journal::install(None);
                pair::install_hook();
                let mut w = mc::Worker { idx: 0, env: env::ExecEnv::new(slab_bytes) };
                // freed chunk addresses are handed out again for requests of the same layout, as real allocators do
                w.env.reuse_exact = true;
                journal::set_worker(0);
                env::attach(&mut *w.env as *mut env::ExecEnv);
                let mval: u8 = a.get("m").map(|s| s.parse().unwrap()).unwrap_or(1);
                let pi: i64 = a.get("prefix").map(|s| s.parse().unwrap()).unwrap_or(-1);
                let only: Option<usize> = a.get("probe").map(|s| s.parse().unwrap());
                // one line per finished probe history, so that the parent sees how far a dying child got
                model.isolation_child(&mut *w.env as *mut env::ExecEnv, mval, pi, only, &mut |x| println!("{:x}", x));
                return;
            }
            let exe = std::env::current_exe().unwrap();
            let tier = if thorough { "thorough" } else { "quick" };
            // a child prints one trace per line; a child that dies leaves fewer lines than probes
            let child = |m: u8, pi: i64, only: Option<usize>| -> Vec<String> {
                let mut c = std::process::Command::new(&exe);
                c.args(["isolation-child", "--m", &m.to_string(), "--prefix", &pi.to_string(), "--tier", tier]);
                if let Some(q) = only {
                    c.args(["--probe", &q.to_string()]);
                }
                let o = c.output().expect("spawn child");
                String::from_utf8_lossy(&o.stdout).lines().map(|s| s.trim().to_string()).filter(|s| !s.is_empty()).collect()
            };
            let prefixes = pair::prefix_histories(thorough);
            let probes = pair::probe_histories(thorough);
            if args[1] == "replay-isolation" {
                let hex = a.get("hex").expect("--hex");
                let parts: Vec<i64> = hex.split('.').map(|x| i64::from_str_radix(x, 16).unwrap()).collect();
                let (m, pi, qi) = (parts[0] as u8, parts[1] - 1, parts[2] as usize);
                let desc = serde_json::json!({"min_align": m, "earlier_history_on_another_arena": if pi < 0 { vec!["(nothing)".to_string()] } else { pair::describe_steps(&prefixes[pi as usize]) }, "then_probe_histories_before_this_one": qi, "history_of_the_observed_arena": pair::describe_steps(&probes[qi])});
                println!("{}", serde_json::to_string(&serde_json::json!({"replaying": desc})).unwrap());
                let base = child(m, -1, Some(qi));
                let with = child(m, pi, None);
                if base.len() != 1 {
                    eprintln!("MACHINERY: the probe history alone does not complete in a fresh process");
                    std::process::exit(2);
                }
                let differs = Some(&base[0]) != with.get(qi);
                let viols = if differs { vec![serde_json::json!({"property": "C20", "clause": "trace_depends_on_earlier_arenas_in_process", "key": if with.len() <= qi { "trace_depends_on_earlier_arenas_in_process/child_died" } else { "trace_depends_on_earlier_arenas_in_process" }, "detail": "reproduced in fresh processes"})] } else { vec![] };
                println!("{}", serde_json::to_string_pretty(&serde_json::json!({"history": desc, "trace": [], "violations": viols})).unwrap());
                return;
            }
            let t0 = std::time::Instant::now();
            let mut viols: Vec<serde_json::Value> = Vec::new();
            let mut execs = 0u64;
            for &m in &ms {
                // reference: every probe history alone in its own fresh process
                let base: Vec<String> = std::thread::scope(|sc| {
                    let hs: Vec<_> = (0..threads).map(|t| { let child = &child; let n = probes.len(); sc.spawn(move || (0..n).filter(|i| i % threads == t).map(|q| (q, child(m, -1, Some(q)))).collect::<Vec<_>>()) }).collect();
                    let mut all: Vec<(usize, Vec<String>)> = hs.into_iter().flat_map(|h| h.join().unwrap()).collect();
                    all.sort();
                    all.into_iter().map(|(q, t)| if t.len() == 1 { t[0].clone() } else { eprintln!("MACHINERY: probe history {:?} alone does not complete in a fresh process", pair::describe_steps(&probes[q])); std::process::exit(2) }).collect()
                });
                execs += base.len() as u64;
                let results: Vec<(usize, Vec<String>)> = std::thread::scope(|sc| {
                    let chunks: Vec<Vec<i64>> = (0..threads).map(|t| (-1..prefixes.len() as i64).filter(|i| (i + 1) as usize % threads == t).collect()).collect();
                    let hs: Vec<_> = chunks.into_iter().map(|c| { let child = &child; sc.spawn(move || c.into_iter().map(|i| ((i + 1) as usize, child(m, i, None))).collect::<Vec<_>>()) }).collect();
                    hs.into_iter().flat_map(|h| h.join().unwrap()).collect()
                });
                for (i1, t) in results {
                    // i1 = prefix index + 1; 0 = no prefix (the probe histories still follow each other in one process)
                    let pi = i1 as i64 - 1;
                    let pre = if pi < 0 { vec!["(nothing)".to_string()] } else { pair::describe_steps(&prefixes[pi as usize]) };
                    execs += t.len() as u64 + 1;
                    let qi = (0..base.len()).find(|&q| t.get(q) != Some(&base[q]));
                    if let Some(qi) = qi {
                        if viols.len() < 5 {
                            let died = t.len() <= qi;
                            viols.push(serde_json::json!({"property": "C20", "clause": "trace_depends_on_earlier_arenas_in_process", "key": if died { "trace_depends_on_earlier_arenas_in_process/child_died" } else { "trace_depends_on_earlier_arenas_in_process" },
                                "detail": format!("MIN_ALIGN {m}: an arena running {:?} {} in a process where other arenas ran before it (first {:?}, then {} shorter probe histories, each on its own arena that was dropped afterwards), but alone in a fresh process it gives a different trace (results, placement, accounting, allocator traffic)", pair::describe_steps(&probes[qi]), if died { "brings the process down (the controlled allocator recycles the memory of arenas that are gone, so this needs state that outlived an earlier arena)" } else { "behaves differently" }, pre, qi),
                                "hist_hex": format!("{:x}.{:x}.{:x}", m, pi + 1, qi), "history": {"earlier_history_on_another_arena": pre, "history_of_the_observed_arena": pair::describe_steps(&probes[qi])}}));
                        }
                    }
                }
            }
            let j = serde_json::json!({
                "states": (prefixes.len() * probes.len() * ms.len()) as u64, "transitions": execs, "executions": execs, "distinct_outcomes": probes.len() as u64, "depth_completed": 0, "level_sizes": [prefixes.len(), probes.len()], "caps_hit": [],
                "coverage_events": {"prefix_histories": prefixes.len(), "probe_histories": probes.len(), "fresh_processes": (prefixes.len() + 1 + probes.len()) * ms.len()}, "violations": viols, "violations_total": viols.len(), "skipped_crash": 0,
                "samples": [{"earlier_history_on_another_arena": pair::describe_steps(&prefixes[prefixes.len() / 2]), "history_of_the_observed_arena": pair::describe_steps(&probes[probes.len() / 2])}], "wall_s": t0.elapsed().as_secs_f64(),
                "extra": {"engine": "isolation (fresh process per prefix history)"},
            });
            let out = a.get("out").cloned().unwrap_or("/dev/stdout".into());
            std::fs::write(&out, serde_json::to_string_pretty(&j).unwrap()).unwrap();
        }
        "replay-arena" => {
            env::init_region(4 * env::MAX_ARENAS * (slab_bytes + env::SLAB_ALIGN));
            journal::install(None);
            journal::spawn_watchdog(20);
            let profile = profile_of(a.get("profile").map(|s| s.as_str()).unwrap_or("core"));
            let depth: usize = a.get("depth").map(|s| s.parse().unwrap()).unwrap_or(3);
            let model = arena::ArenaModel { profile, thorough: false, min_aligns: vec![1], max_depth: depth };
            let bytes = journal::from_hex(a.get("hex").expect("--hex"));
            let h = mc::Hist::<arena::model::Cfg, arena::ops::Act>::from_bytes(&bytes).unwrap_or_else(|| {
                eprintln!("MACHINERY: history bytes have the wrong length");
                std::process::exit(2)
            });
            let mut w = mc::Worker { idx: 0, env: env::ExecEnv::new(slab_bytes) };
            journal::set_worker(0);
            journal::install_altstack();
            env::attach(&mut *w.env as *mut env::ExecEnv);
            journal::record(&h);
            println!("{}", serde_json::to_string(&serde_json::json!({"replaying": mc::Model::describe(&model, &h)})).unwrap());
            let (out, trace) = model.replay(&mut w, &h);
            let viols: Vec<serde_json::Value> = out.violations.iter().map(|v| serde_json::json!({"property": format!("C{:02}", v.prop), "clause": v.clause, "key": v.key, "detail": v.detail})).collect();
            let j = serde_json::json!({"history": mc::Model::describe(&model, &h), "trace": trace, "violations": viols, "key": format!("{:032x}", out.key)});
            println!("{}", serde_json::to_string_pretty(&j).unwrap());
        }
        other => {
            eprintln!("MACHINERY: unknown command {other}");
            std::process::exit(2);
        }
    }
}
