//! C20, sequential part: two (three) arenas driven by one interleaved history, each with its own
//! Env slab. Oracles: (1) the trace of every arena equals the trace of its own sub-history run
//! alone; (2) an operation on one arena leaves the other arenas' observables and contents
//! unchanged; (3) every bookkeeping store reported by the verif_hooks hook targets memory the
//! acting arena holds — never the shared static or another arena's chunk.

use crate::arena::model::{construct, Cfg as ACfg, Ctor};
use crate::arena::ops::{Act, TM};
use crate::arena::types::Ty;
use crate::arena::world::{Pub, World};
use crate::env::{Answer, ExecEnv};
use crate::mc::{Hist, Model, RunOut, Violation, Worker};
use crate::util::{arena_op, Hasher128};
use std::cell::Cell;

pub const NA: usize = 3;

thread_local! {
    static STORES: Cell<[(usize, u8); 32]> = const { Cell::new([(0, 0); 32]) };
    static NSTORES: Cell<usize> = const { Cell::new(0) };
}

fn hook(footer: *const u8, site: u8) {
    NSTORES.with(|n| {
        let i = n.get();
        if i < 32 {
            STORES.with(|s| {
                let mut a = s.get();
                a[i] = (footer as usize, site);
                s.set(a);
            });
        }
        n.set(i + 1);
    });
}

pub fn install_hook() {
    bumpalo::verif_hooks::set_footer_store_hook(Some(hook));
}

fn take_stores() -> Vec<(usize, u8)> {
    let n = NSTORES.with(|n| n.replace(0));
    let a = STORES.with(|s| s.get());
    a[..n.min(32)].to_vec()
}

#[derive(Clone, Copy, Debug, PartialEq, Eq, Hash)]
#[repr(C)]
pub enum PAct {
    Nop,
    Create { who: u8, cap: u32 },
    Layout { who: u8, size: usize, al: u8 },
    Alloc64 { who: u8 },
    Reset { who: u8 },
    SetLimit { who: u8, some: bool, val: usize },
    Drop { who: u8 },
    Dealloc { who: u8 },
    Grow { who: u8, by: usize },
    Shrink { who: u8 },
    TryWithZ { who: u8 },
    /// alloc_try_with / try_alloc_try_with whose Result<Infallible, ()> slot is zero-sized
    TryWithNever { who: u8, fallible: bool },
}

impl PAct {
    fn who(&self) -> usize {
        match *self {
            PAct::Nop => 0,
            PAct::Create { who, .. } | PAct::Layout { who, .. } | PAct::Alloc64 { who } | PAct::Reset { who } | PAct::SetLimit { who, .. } | PAct::Drop { who } | PAct::Dealloc { who } | PAct::Grow { who, .. } | PAct::Shrink { who } | PAct::TryWithZ { who } | PAct::TryWithNever { who, .. } => who as usize,
        }
    }
}

#[derive(Clone, Copy, Debug)]
#[repr(C)]
pub struct PCfg {
    pub m: u8,
    pub arenas: u8,
}

pub struct PairModel {
    pub thorough: bool,
    pub max_depth: usize,
    /// arena 0 may be created with 20 MiB (threshold-type coupling through process-wide accounting)
    pub huge: bool,
}

thread_local! {
    static NREQ: Cell<u8> = const { Cell::new(0) };
}
struct NreqCell;
impl NreqCell {
    fn set(&self, v: u8) {
        NREQ.with(|c| c.set(v));
    }
    fn get(&self) -> u8 {
        NREQ.with(|c| c.get())
    }
}

struct Slot<const M: usize> {
    w: Option<World<M>>,
    trace: Hasher128,
    steps: u32,
}

impl PairModel {
    #[allow(non_upper_case_globals)]
    const nreq_dummy: () = ();
    /// Execute `acts` (already filtered or not); returns per-arena trace hashes and the worlds.
    fn exec<const M: usize>(&self, envp: *mut ExecEnv, steps: &[crate::mc::Step<PAct>], judge_last: bool, viol: &mut Vec<Violation>, na: usize, collect_enabled: Option<&mut Vec<PAct>>) -> ([u64; NA], u128) {
        unsafe {
            (*envp).begin_execution();
            // requests up to the slab size are served (one arena of the pair may be huge)
            (*envp).policy.cap = (*envp).slabs[0].size;
        }
        if crate::util::static_dirty() {
            crate::util::restore_static();
        }
        let _ = take_stores();
        crate::util::drops_clear();
        let mut slots: Vec<Slot<M>> = (0..NA).map(|_| Slot { w: None, trace: Hasher128::new(), steps: 0 }).collect();
        let n = steps.len();
        let mut nreq_last = 0u8;
        for (i, st) in steps.iter().enumerate() {
            let act = &st.act;
            let (sc, sn) = st.script();
            let script = &sc[..sn];
            let who = act.who();
            let judge = judge_last && i + 1 == n;
            // the other arenas before
            let mut before: Vec<Option<Pub>> = Vec::with_capacity(NA);
            for (j, s) in slots.iter_mut().enumerate() {
                before.push(if j != who { s.w.as_mut().map(|w| w.observe()) } else { None });
            }
            let step = i as u32 + 1;
            let mut oc: u64 = 0;
            match *act {
                PAct::Nop => {}
                PAct::Create { cap, .. } => {
                    if slots[who].w.is_none() {
                        let cfg = ACfg { m: M as u8, ctor: if cap == 0 { Ctor::MinAlign } else { Ctor::MinAlignCap }, cap: cap as usize, ans: 0, drop_on_thread: false, aux: 0 };
                        let r = arena_op(envp, step, who, &[], || construct::<M>(&cfg));
                        if let Ok(Ok(Some(b))) = r {
                            let mut w: World<M> = World::new(envp, who);
                            w.bump = Some(b);
                            w.next_err_id = 1000 * (who as u32 + 1) + 50 * step;
                            w.judge = judge;
                            w.step = step;
                            let zero = Pub { cap: 0, ab: 0, abm: 0, limit: None, nchunks: 0, chunks: [(0, 0); crate::arena::world::MAX_CHUNKS_OBS], iter_ok: true };
                            let pre_l = (0usize, 0usize);
                            let post = w.generic_post("constructor", &zero, pre_l, false);
                            let k = w.key(&post);
                            w.keys.push(k);
                            oc = 1;
                            slots[who].w = Some(w);
                        }
                    }
                }
                PAct::Drop { .. } => {
                    if let Some(mut w) = slots[who].w.take() {
                        w.judge = judge;
                        w.step = step;
                        w.drop_arena(false);
                        viol.append(&mut w.viol);
                        oc = 2;
                    }
                }
                _ => {
                    if let Some(w) = slots[who].w.as_mut() {
                        w.judge = judge;
                        w.step = step;
                        w.cov = 0;
                        match *act {
                            PAct::Layout { size, al, .. } => w.do_layout(true, size, al, script, false),
                            PAct::Alloc64 { .. } => w.do_typed(TM::TryAlloc, Ty::U64, script, false),
                            PAct::Reset { .. } => w.do_reset(false),
                            PAct::SetLimit { some, val, .. } => w.do_set_limit(some, val),
                            PAct::Dealloc { .. } => w.do_dealloc(0),
                            PAct::Grow { by, .. } => {
                                if let Some(i) = w.handle(0) {
                                    let (s, a) = (w.live[i].size, w.live[i].align);
                                    w.do_grow(0, s + by, crate::util::log2(a), false, &[]);
                                }
                            }
                            PAct::Shrink { .. } => {
                                if let Some(i) = w.handle(0) {
                                    let (s, a) = (w.live[i].size, w.live[i].align);
                                    w.do_shrink(0, s / 2, crate::util::log2(a), &[]);
                                }
                            }
                            PAct::TryWithNever { fallible, .. } => {
                                let b = w.bump.take().unwrap();
                                let r = arena_op(envp, step, who, &[], || {
                                    if fallible {
                                        b.try_alloc_try_with(|| Err::<std::convert::Infallible, ()>(())).is_err()
                                    } else {
                                        b.alloc_try_with(|| Err::<std::convert::Infallible, ()>(())).is_err()
                                    }
                                });
                                w.bump = Some(b);
                                w.outcome = match r {
                                    Ok(true) => 31,
                                    _ => 32,
                                };
                            }
                            PAct::TryWithZ { .. } => w.do_try_with(false, Ty::Unit, false, crate::arena::ops::Inner::Nothing, false, 0, &[]),
                            _ => {}
                        }
                        for j in 0..w.live.len() {
                            w.live[j].epoch = step;
                            w.fill(j);
                        }
                        oc = w.outcome;
                        if i + 1 == n {
                            nreq_last = w.nreq_last;
                        }
                    }
                }
            }
            // ---- hook: where did bookkeeping stores go?
            let stores = take_stores();
            if judge {
                for (addr, site) in stores {
                    let own = unsafe { (*envp).ledger.iter().any(|b| b.arena as usize == who && addr >= b.base && addr < b.base + b.size) };
                    if !own {
                        let is_static = addr == bumpalo::verif_hooks::empty_chunk_addr() as usize;
                        let other = unsafe { (*envp).ledger.iter().find(|b| b.arena as usize != who && addr >= b.base && addr < b.base + b.size).map(|b| b.arena) };
                        let (clause, key): (&'static str, String) = if is_static {
                            ("store_into_shared_static", format!("store_into_shared_static/site{site}"))
                        } else if other.is_some() {
                            ("store_into_other_arena", format!("store_into_other_arena/site{site}"))
                        } else {
                            ("store_outside_own_chunks", format!("store_outside_own_chunks/site{site}"))
                        };
                        viol.push(Violation { prop: 20, clause, key, detail: format!("{:?}: bookkeeping store (site {site}) targets {} instead of a chunk of the acting arena", act, if is_static { "the crate's shared static empty chunk (shared by every arena and thread)".to_string() } else { format!("{:#x}", addr) }), unsafe_mem: false });
                    }
                }
            }
            // ---- the other arenas are untouched
            for j in 0..NA {
                if j == who {
                    continue;
                }
                if let (Some(pre), Some(w)) = (before[j], slots[j].w.as_mut()) {
                    let post = w.observe();
                    if judge && post != pre {
                        viol.push(Violation { prop: 20, clause: "other_arena_observables_changed", key: "other_arena_observables_changed".into(), detail: format!("{:?} changed arena {j}: cap {}→{}, allocated_bytes {}→{}, chunks {}→{}", act, pre.cap, post.cap, pre.ab, post.ab, pre.nchunks, post.nchunks), unsafe_mem: false });
                    }
                    if judge {
                        for b in &w.live {
                            if b.size > 0 && World::<M>::verify_blk(b).is_some() {
                                viol.push(Violation { prop: 20, clause: "other_arena_contents_changed", key: "other_arena_contents_changed".into(), detail: format!("{:?} changed the contents of a live block of arena {j}", act), unsafe_mem: false });
                                break;
                            }
                        }
                    }
                }
            }
            // ---- the acting arena's trace
            let canon = unsafe { (*envp).reuse_exact };
            let s = &mut slots[who];
            s.steps += 1;
            s.trace.u(oc);
            match s.w.as_mut() {
                Some(w) => {
                    let p = w.observe();
                    s.trace.u(p.cap as u64);
                    s.trace.u(p.ab as u64);
                    s.trace.u(p.abm as u64);
                    s.trace.u(p.limit.map_or(u64::MAX, |l| l as u64));
                    s.trace.u(p.nchunks as u64);
                    for c in 0..p.nchunks.min(crate::arena::world::MAX_CHUNKS_OBS) {
                        s.trace.u(if canon { w.rel_canon(p.chunks[c].0) } else { w.rel(p.chunks[c].0) } as u64);
                        s.trace.u(p.chunks[c].1 as u64);
                    }
                    if let Some(b) = w.live.last() {
                        s.trace.u(if canon { w.rel_canon(b.addr) } else { w.rel(b.addr) } as u64);
                        s.trace.u(b.size as u64);
                    }
                    s.trace.u(w.live.len() as u64);
                    if judge {
                        viol.append(&mut w.viol);
                    } else {
                        w.viol.clear();
                    }
                }
                None => s.trace.u(0xdead),
            }
        }
        // enabled + key
        let mut kh = Hasher128::new();
        for j in 0..na {
            match slots[j].w.as_mut() {
                Some(w) => {
                    let p = w.observe();
                    kh.u(1);
                    let k = w.key(&p);
                    kh.u(k as u64);
                    kh.u((k >> 64) as u64);
                }
                None => {
                    kh.u(0);
                    // a dropped-and-recreated arena continues in its slab: cursor class matters only via valuations
                    kh.u(slots[j].steps.min(1) as u64);
                }
            }
        }
        if let Some(en) = collect_enabled {
            for j in 0..na {
                let who = j as u8;
                match slots[j].w.as_mut() {
                    None => {
                        en.push(PAct::Create { who, cap: 0 });
                        en.push(PAct::Create { who, cap: 1 });
                        if self.huge && who == 0 && slots[j].steps == 0 {
                            // one arena may be huge (threshold-type coupling through process-wide accounting)
                            en.push(PAct::Create { who, cap: 20 << 20 });
                        }
                    }
                    Some(w) => {
                        let p = w.observe();
                        en.push(PAct::Layout { who, size: 0, al: 0 });
                        en.push(PAct::Layout { who, size: 0, al: 4 });
                        en.push(PAct::Layout { who, size: 8, al: 0 });
                        // (the huge arena only has to hold memory: no multi-megabyte blocks, which the oracles would fill and verify bytewise)
                        en.push(PAct::Layout { who, size: if p.cap > (1 << 20) { 70_000 } else { p.cap + 1 }, al: 0 });
                        en.push(PAct::Alloc64 { who });
                        en.push(PAct::Reset { who });
                        en.push(PAct::SetLimit { who, some: true, val: p.ab });
                        if p.limit.is_some() {
                            en.push(PAct::SetLimit { who, some: false, val: 0 });
                        }
                        en.push(PAct::Drop { who });
                        en.push(PAct::TryWithZ { who });
                        en.push(PAct::TryWithNever { who, fallible: false });
                        en.push(PAct::TryWithNever { who, fallible: true });
                        if w.handle(0).is_some() {
                            en.push(PAct::Dealloc { who });
                            en.push(PAct::Grow { who, by: 0 });
                            en.push(PAct::Grow { who, by: 8 });
                            en.push(PAct::Shrink { who });
                        }
                    }
                }
            }
        }
        // end of execution: drop everything (ledger must end empty)
        for (j, s) in slots.iter_mut().enumerate() {
            if let Some(mut w) = s.w.take() {
                w.judge = judge_last;
                w.step = n as u32 + 1 + j as u32;
                w.drop_arena(false);
                viol.append(&mut w.viol);
            }
        }
        let _ = take_stores();
        if crate::util::static_dirty() {
            crate::util::restore_static();
            if judge_last {
                viol.push(Violation { prop: 20, clause: "shared_static_modified", key: "shared_static_modified".into(), detail: "the shared static empty chunk holds different bytes after this execution".into(), unsafe_mem: true });
            }
        }
        let mut t = [0u64; NA];
        for j in 0..NA {
            t[j] = slots[j].trace.finish64();
        }
        NreqCell.set(nreq_last);
        (t, kh.finish())
    }

    fn run_m<const M: usize>(&self, w: &mut Worker, h: &Hist<PCfg, PAct>, want_enabled: bool) -> RunOut<PAct> {
        let envp: *mut ExecEnv = &mut *w.env;
        let acts: Vec<PAct> = h.steps().iter().map(|s| s.act).collect();
        let steps: Vec<crate::mc::Step<PAct>> = h.steps().to_vec();
        let na = h.cfg.arenas as usize;
        let mut viol = Vec::new();
        let mut enabled = Vec::new();
        let (t, key) = self.exec::<M>(envp, &steps, true, &mut viol, na, if want_enabled { Some(&mut enabled) } else { None });
        let mut out = RunOut { key, enabled, nreq_last: NreqCell.get(), terminal: false, violations: Vec::new(), cov: 0, outcome: t[0] ^ t[1].rotate_left(7) ^ t[2].rotate_left(13) };
        // differential: the acting arena's trace equals the trace of its own sub-history run alone
        if let Some(last) = acts.last() {
            let who = last.who();
            let solo: Vec<crate::mc::Step<PAct>> = steps.iter().copied().filter(|s| s.act.who() == who).collect();
            if solo.len() != acts.len() {
                let mut dummy = Vec::new();
                let (ts, _) = self.exec::<M>(envp, &solo, true, &mut dummy, na, None);
                if ts[who] != t[who] {
                    viol.push(Violation { prop: 20, clause: "trace_depends_on_other_arenas", key: "trace_depends_on_other_arenas".into(), detail: format!("arena {who}: results/placement/accounting differ between the interleaved history and its own sub-history run alone (last action {:?})", last), unsafe_mem: false });
                }
            }
        }
        out.violations = viol;
        out
    }
}

impl Model for PairModel {
    type Cfg = PCfg;
    type Act = PAct;
    fn configs(&self) -> Vec<PCfg> {
        let mut v = vec![PCfg { m: 1, arenas: 2 }, PCfg { m: 16, arenas: 2 }];
        if self.thorough {
            v.push(PCfg { m: 8, arenas: 2 });
            v.push(PCfg { m: 1, arenas: 3 });
        }
        v
    }
    fn run(&self, w: &mut Worker, h: &Hist<PCfg, PAct>, want_enabled: bool) -> RunOut<PAct> {
        match h.cfg.m {
            1 => self.run_m::<1>(w, h, want_enabled),
            8 => self.run_m::<8>(w, h, want_enabled),
            _ => self.run_m::<16>(w, h, want_enabled),
        }
    }
    fn cov_names(&self) -> &'static [&'static str] {
        &[]
    }
    fn alt_answers(&self) -> Vec<Answer> {
        vec![Answer::Refuse]
    }
    fn describe(&self, h: &Hist<PCfg, PAct>) -> serde_json::Value {
        let steps: Vec<String> = h.steps().iter().map(|s| if s.ndev == 0 { format!("{:?}", s.act) } else { format!("{:?} with the global allocator refusing request #{} of this operation", s.act, s.devs[0].0) }).collect();
        serde_json::json!({"min_align": h.cfg.m, "arenas": h.cfg.arenas, "steps": steps})
    }
}

#[allow(dead_code)]
fn _u(_: Act) {}

// ------------------------------------------------------------------------------------------
// Fresh-process isolation differential: process-wide state (statics) cannot be reset between
// executions inside one process, so "arena B's behaviour depends only on its own history" is also
// checked across processes: child process i first runs prefix history P[i] on some arena (including
// allocator refusals), then every B-history Q[j]; its trace vector must equal the one of a child
// that ran no prefix at all.
// ------------------------------------------------------------------------------------------

fn all_histories(alphabet: &dyn Fn(&[crate::mc::Step<PAct>]) -> Vec<crate::mc::Step<PAct>>, depth: usize) -> Vec<Vec<crate::mc::Step<PAct>>> {
    let mut out: Vec<Vec<crate::mc::Step<PAct>>> = vec![vec![]];
    let mut frontier: Vec<Vec<crate::mc::Step<PAct>>> = vec![vec![]];
    for _ in 0..depth {
        let mut next = Vec::new();
        for h in &frontier {
            for s in alphabet(h) {
                let mut h2 = h.clone();
                h2.push(s);
                next.push(h2);
            }
        }
        out.extend(next.iter().cloned());
        frontier = next;
    }
    out
}

fn created(h: &[crate::mc::Step<PAct>]) -> bool {
    let mut c = false;
    for s in h {
        match s.act {
            PAct::Create { .. } => c = true,
            PAct::Drop { .. } => c = false,
            _ => {}
        }
    }
    c
}

pub fn prefix_histories(thorough: bool) -> Vec<Vec<crate::mc::Step<PAct>>> {
    use crate::mc::Step;
    let alpha = |h: &[Step<PAct>]| -> Vec<Step<PAct>> {
        let who = 0u8;
        if !created(h) {
            return vec![Step::new(PAct::Create { who, cap: 0 }), Step::new(PAct::Create { who, cap: 1 })];
        }
        let mut v = vec![
            Step::new(PAct::Layout { who, size: 0, al: 0 }),
            Step::new(PAct::Layout { who, size: 8, al: 0 }),
            Step::new(PAct::Layout { who, size: 449, al: 0 }),
            Step::new(PAct::Layout { who, size: 449, al: 0 }).with_dev(0, Answer::Refuse),
            Step::new(PAct::Layout { who, size: 8, al: 0 }).with_dev(0, Answer::Refuse),
            Step::new(PAct::Layout { who, size: 5000, al: 0 }).with_dev(0, Answer::Refuse),
            Step::new(PAct::Layout { who, size: 70_000, al: 6 }).with_dev(0, Answer::Refuse),
            Step::new(PAct::Reset { who }),
            Step::new(PAct::SetLimit { who, some: true, val: 100 }),
            Step::new(PAct::Drop { who }),
            Step::new(PAct::TryWithNever { who, fallible: false }),
        ];
        if thorough {
            v.push(Step::new(PAct::Layout { who, size: 70_000, al: 0 }));
            v.push(Step::new(PAct::Dealloc { who }));
        }
        v
    };
    let mut all = all_histories(&alpha, if thorough { 4 } else { 3 });
    // an arena in the *same slab as the probes* that grows to nine chunks (448 ... 131 008 bytes), is observed
    // and dropped: the probes then run at addresses a dead many-chunk arena used before
    let mut grow: Vec<Step<PAct>> = vec![Step::new(PAct::Create { who: 1, cap: 0 })];
    for size in [1usize, 449, 961, 1985, 4033, 8129, 16321, 32705, 65473] {
        grow.push(Step::new(PAct::Layout { who: 1, size, al: 0 }));
    }
    all.push(grow);
    all
}

pub fn probe_histories(thorough: bool) -> Vec<Vec<crate::mc::Step<PAct>>> {
    use crate::mc::Step;
    let alpha = |h: &[Step<PAct>]| -> Vec<Step<PAct>> {
        let who = 1u8;
        if !created(h) {
            return vec![Step::new(PAct::Create { who, cap: 0 }), Step::new(PAct::Create { who, cap: 1 })];
        }
        vec![
            Step::new(PAct::Layout { who, size: 0, al: 0 }),
            Step::new(PAct::Layout { who, size: 8, al: 0 }),
            Step::new(PAct::Layout { who, size: 449, al: 0 }),
            Step::new(PAct::Layout { who, size: 2000, al: 0 }),
            Step::new(PAct::Layout { who, size: 70_000, al: 0 }),
            Step::new(PAct::Reset { who }),
        ]
    };
    // first: arenas whose first chunk has exactly the layout of another arena's 9th / 8th chunk (they run right after
    // the prefix, while the allocator still remembers the addresses the prefix arena gave back)
    let mut all: Vec<Vec<Step<PAct>>> = Vec::new();
    for cap in [131_008u32, 65_472] {
        all.push(vec![Step::new(PAct::Create { who: 1, cap }), Step::new(PAct::Layout { who: 1, size: 8, al: 0 })]);
    }
    all.extend(all_histories(&alpha, if thorough { 5 } else { 4 }));
    all
}

impl PairModel {
    /// Child: run prefix `pi` (or none) then every probe history; print the trace vector.
    pub fn isolation_child(&self, envp: *mut ExecEnv, m: u8, pi: i64, only: Option<usize>, emit: &mut dyn FnMut(u64)) {
        let prefixes = prefix_histories(self.thorough);
        let probes = probe_histories(self.thorough);
        let mut dummy = Vec::new();
        let run = |steps: &[crate::mc::Step<PAct>], dummy: &mut Vec<Violation>| -> [u64; NA] {
            match m {
                1 => self.exec::<1>(envp, steps, false, dummy, 2, None).0,
                8 => self.exec::<8>(envp, steps, false, dummy, 2, None).0,
                _ => self.exec::<16>(envp, steps, false, dummy, 2, None).0,
            }
        };
        if pi >= 0 {
            let _ = run(&prefixes[pi as usize], &mut dummy);
        }
        match only {
            Some(q) => emit(run(&probes[q], &mut dummy)[1]),
            None => {
                for q in &probes {
                    emit(run(q, &mut dummy)[1]);
                }
            }
        }
    }
}

pub fn describe_steps(steps: &[crate::mc::Step<PAct>]) -> Vec<String> {
    steps.iter().map(|s| if s.ndev == 0 { format!("{:?}", s.act) } else { format!("{:?} with the global allocator refusing request #{} of this operation", s.act, s.devs[0].0) }).collect()
}
