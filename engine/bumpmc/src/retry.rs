//! C18, chunk sizes under size-dependent refusal (round 8 gap): the arena is grown until its newest chunk has a
//! size in (2^(k-1), 2^k], the chunk is filled, and the next request is made under an allocator that refuses
//! every request above 2^k bytes — so a chunk twice as large is refused while one as large as the last is
//! grantable. "Each new block is at least as large as the last (doubling while the allocator permits)": the chunk
//! obtained must not be smaller than the last one.

use crate::env::{Answer, ExecEnv};
use crate::grid::Case;
use crate::mc::Violation;
use crate::util::arena_op;
use bumpalo::Bump;
use std::alloc::Layout;

pub const STARTS: [&str; 3] = ["new()", "with_capacity(1000)", "with_capacity(5000)"];
pub const REQS: [(usize, usize); 3] = [(24, 8), (100, 1), (300, 4)];

pub fn cases(_t: bool) -> Vec<Case> {
    let mut c = Vec::new();
    for m in [1u8, 8, 16] {
        for k in 9..=18u8 {
            for req in 0..REQS.len() as u8 {
                for start in 0..STARTS.len() as u8 {
                    c.push(Case::Retry { m, k, req, start });
                }
            }
        }
    }
    c
}

fn newest(envp: *mut ExecEnv) -> Option<(u32, usize, usize)> {
    unsafe { (*envp).live_blocks(0).map(|b| (b.serial, b.size, b.align)).max() }
}

fn typed<const M: usize>(envp: *mut ExecEnv, k: u8, req: u8, start: u8, v: &mut Vec<Violation>) -> u64 {
    unsafe { (*envp).policy.cap = (*envp).slabs[0].size };
    let b: Bump<M> = match arena_op(envp, 0, 0, &[], || match start {
        0 => Bump::<M>::with_min_align(),
        1 => Bump::<M>::with_min_align_and_capacity(1000),
        _ => Bump::<M>::with_min_align_and_capacity(5000),
    }) {
        Ok(b) => b,
        Err(_) => return 0,
    };
    let (lo, hi) = (1usize << (k - 1), 1usize << k);
    let mut outcome = 1u64;
    // grow under a granting allocator until the newest chunk is in (lo, hi]
    let mut reached = false;
    for _ in 0..(1 << 15) {
        match newest(envp) {
            Some((_, s, _)) if s > hi => break,
            Some((_, s, _)) if s > lo => {
                reached = true;
                break;
            }
            _ => {}
        }
        if arena_op(envp, 1, 0, &[], || { b.alloc_layout(Layout::from_size_align(64, 8).unwrap()); }).is_err() {
            break;
        }
    }
    if reached {
        // fill what is left of it
        let c = b.chunk_capacity() / M * M;
        let before = newest(envp);
        if c > 0 {
            let _ = arena_op(envp, 2, 0, &[], || { b.alloc_layout(Layout::from_size_align(c, 1).unwrap()); });
        }
        let last = newest(envp);
        if last == before {
            let (serial, size, _align) = last.unwrap();
            let (rs, ra) = REQS[req as usize];
            let r = arena_op(envp, 3, 0, &[Answer::RefuseAbove(k)], || b.try_alloc_layout(Layout::from_size_align(rs, ra).unwrap()).is_ok());
            outcome = 2;
            if let (Ok(true), Some((s2, size2, _))) = (&r, newest(envp)) {
                outcome = 3;
                if s2 != serial {
                    outcome = 4 + (size2 >= 2 * size) as u64;
                    if size2 < size {
                        v.push(Violation { prop: 18, clause: "chunk_smaller_than_last", key: "chunk_smaller_than_last/refusal_above_a_size".into(),
                            detail: format!("Bump<{M}> {}: newest chunk {size} bytes, filled; the allocator refuses requests above {hi} bytes (a chunk of {size} bytes is grantable); a request of {rs} bytes (align {ra}) obtained a chunk of {size2} bytes, smaller than the last", STARTS[start as usize]), unsafe_mem: false });
                    }
                }
            }
        }
    }
    let _ = arena_op(envp, 4, 0, &[], move || drop(b));
    outcome * 100 + k as u64
}

pub fn run_case(envp: *mut ExecEnv, m: u8, k: u8, req: u8, start: u8, v: &mut Vec<Violation>) -> u64 {
    match m {
        1 => typed::<1>(envp, k, req, start, v),
        8 => typed::<8>(envp, k, req, start, v),
        _ => typed::<16>(envp, k, req, start, v),
    }
}
