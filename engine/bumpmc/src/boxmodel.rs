//! C17: `bumpalo::boxed::Box` against `std::boxed::Box` over conversion chains (also serves the
//! Box parts of C15 and C16). Every case builds a box in a fresh arena, applies up to four
//! ownership-preserving steps and a terminal step in both worlds, and compares observations and
//! destructor ledgers; the arena must hold exactly the same memory before and after the Box dies.

use crate::coll::elem::*;
use crate::coll::veclike::Obs;
use crate::env::{Callback, ExecEnv};
use crate::grid::Case;
use crate::mc::Violation;
use crate::util::{arena_op, classify_panic, Hasher128, PanicClass};
use bumpalo::boxed::Box as BBox;
use bumpalo::collections::Vec as BVec;
use bumpalo::Bump;
use std::any::Any;
use std::collections::hash_map::DefaultHasher;
use std::future::Future;
use std::hash::{Hash, Hasher};
use std::panic::{catch_unwind, AssertUnwindSafe};
use std::pin::Pin;
use std::task::{Context, Poll, RawWaker, RawWakerVTable, Waker};

pub const FAMILIES: [&str; 12] = ["sized D", "sized u64", "unit", "zero-sized droppable", "slice of D", "str", "dyn Any", "dyn Any + Send", "dyn Iterator", "dyn Future + Unpin", "dyn Hasher", "slice of zero-sized droppables"];
const STEP_NAMES: [&str; 6] = ["-", "into_raw/from_raw", "deref-read", "deref_mut-write", "pin round trip", "compare/hash/format"];
const TERM_NAMES: [&str; 6] = ["drop", "into_inner / consume", "leak", "into_raw (no from_raw)", "downcast mismatch then match", "try_from array (N wrong, then right)"];

pub fn cases(t: bool) -> Vec<Case> {
    let mut c = Vec::new();
    let maxk = if t { 4 } else { 3 };
    for fam in 0..FAMILIES.len() as u8 {
        for build in 0..builds(fam) {
            for k in 0..=maxk {
                // all step sequences of length k over 5 step kinds
                let n = 5u32.pow(k);
                for code in 0..n {
                    let mut steps = 0u16;
                    let mut x = code;
                    for j in 0..k {
                        steps |= (((x % 5) + 1) as u16) << (3 * j);
                        x /= 5;
                    }
                    for term in 0..6u8 {
                        if !term_applies(fam, term) {
                            continue;
                        }
                        c.push(Case::Bx { fam, build, steps, term, fault: 255 });
                    }
                }
            }
        }
    }
    // forwarding impls (compare / hash / format / iterate / poll / borrow) over value pairs and argument grids
    for (g, na, nb) in FW_GROUPS {
        for a in 0..na {
            for b in 0..nb {
                c.push(Case::Bx { fam: 100 + g, build: a, steps: b as u16, term: 0, fault: 255 });
            }
        }
    }
    // C16: panicking destructor when a Box (sized / slice) dies
    for fault in 0..4u8 {
        c.push(Case::Bx { fam: 0, build: 0, steps: 0, term: 0, fault });
        for build in 0..builds(4) {
            c.push(Case::Bx { fam: 4, build, steps: 0, term: 0, fault });
        }
    }
    c
}

fn builds(fam: u8) -> u8 {
    match fam {
        4 | 11 => 5, // Vec::into_boxed_slice, Box::from_iter_in, collect_in, From<Box<[T;N]>>, From<Vec>
        _ => 1,
    }
}

fn term_applies(fam: u8, term: u8) -> bool {
    match term {
        0 | 2 | 3 => true,
        1 => !matches!(fam, 5), // into_inner needs Sized; for slices/iterators/etc. "consume" has a meaning below
        4 => matches!(fam, 6 | 7),
        _ => fam == 4 || fam == 11,
    }
}

pub fn describe(fam: u8, build: u8, steps: u16, term: u8, fault: u8) -> serde_json::Value {
    if fam >= 100 {
        return serde_json::json!({"box_forwarding_group": FW_NAMES[(fam - 100) as usize], "a": build, "b": steps});
    }
    let st: Vec<&str> = (0..4).map(|j| STEP_NAMES[((steps >> (3 * j)) & 7) as usize]).filter(|s| *s != "-").collect();
    serde_json::json!({"box_of": FAMILIES[fam as usize], "built_by": build, "steps": st, "terminal": TERM_NAMES[term as usize], "destructor_panics_at": if fault == 255 { serde_json::Value::Null } else { serde_json::json!(fault) }})
}

fn noop_waker() -> Waker {
    fn clone(_: *const ()) -> RawWaker {
        RawWaker::new(std::ptr::null(), &VT)
    }
    fn noop(_: *const ()) {}
    static VT: RawWakerVTable = RawWakerVTable::new(clone, noop, noop, noop);
    unsafe { Waker::from_raw(RawWaker::new(std::ptr::null(), &VT)) }
}

/// A future that is ready on its second poll and owns a drop-tracked value.
struct TwoStep {
    polls: u32,
    d: D,
}
impl Future for TwoStep {
    type Output = u32;
    fn poll(mut self: Pin<&mut Self>, _cx: &mut Context<'_>) -> Poll<u32> {
        self.polls += 1;
        if self.polls >= 2 {
            Poll::Ready(self.d.label + self.polls)
        } else {
            Poll::Pending
        }
    }
}

struct CountHasher {
    inner: DefaultHasher,
    d: D,
}
impl Hasher for CountHasher {
    fn finish(&self) -> u64 {
        self.inner.finish() ^ self.d.label as u64
    }
    fn write(&mut self, b: &[u8]) {
        self.inner.write(b)
    }
}

struct OwnIter {
    lo: u32,
    hi: u32,
    d: D,
}
impl Iterator for OwnIter {
    type Item = u32;
    fn next(&mut self) -> Option<u32> {
        if self.lo < self.hi {
            self.lo += 1;
            Some(self.lo - 1 + self.d.val as u32)
        } else {
            None
        }
    }
    fn size_hint(&self) -> (usize, Option<usize>) {
        let n = (self.hi - self.lo) as usize;
        (n, Some(n))
    }
}
impl DoubleEndedIterator for OwnIter {
    fn next_back(&mut self) -> Option<u32> {
        if self.lo < self.hi {
            self.hi -= 1;
            Some(self.hi + self.d.val as u32)
        } else {
            None
        }
    }
}
impl ExactSizeIterator for OwnIter {}

/// The two box flavours behind one vocabulary.
macro_rules! chain {
    ($world:expr, $obs:expr, $fam:expr, $build:expr, $steps:expr, $term:expr, bx = $bx:ident,
     new = $new:expr, from_raw = $from_raw:path, into_raw = $into_raw:path, leak = $leak:path, into_inner = $into_inner:ident,
     pin_rt = $pin_rt:ident, slice = $slice:expr, arr_to_slice = $arr2s:expr, slice_to_arr2 = $s2a2:expr, slice_to_arr3 = $s2a3:expr,
     any = $any:expr, anysend = $anysend:expr, dynit = $dynit:expr, dynfut = $dynfut:expr, dynhash = $dynhash:expr, boxstr = $boxstr:expr,
     downcast_any = $dc_any:expr, downcast_anysend = $dc_anysend:expr,
     zslice = $zslice:expr, zarr_to_slice = $zarr2s:expr, zslice_to_arr2 = $zs2a2:expr, zslice_to_arr3 = $zs2a3:expr) => {{
        let w: u8 = $world;
        let obs: &mut Obs = $obs;
        let steps: u16 = $steps;
        macro_rules! run_steps {
            ($b:ident, $read:expr, $write:expr, $cmp:expr) => {
                for j in 0..4 {
                    match (steps >> (3 * j)) & 7 {
                        0 => {}
                        1 => {
                            let p = $into_raw($b);
                            $b = unsafe { $from_raw(p) };
                        }
                        2 => {
                            let _g = Callback::enter();
                            obs.n($read(&$b))
                        }
                        3 => $write(&mut $b),
                        4 => {
                            let p = $pin_rt!($b);
                            $b = unsafe { Pin::into_inner_unchecked(p) };
                        }
                        _ => {
                            // formatting/hashing may allocate harness memory: not chunk requests
                            let _g = Callback::enter();
                            obs.n($cmp(&$b))
                        }
                    }
                }
            };
        }
        match $fam {
            0 => {
                let mut b = $new(D::new(w, 10, 1));
                run_steps!(b, |b: &$bx!(D)| { let d: &D = &**b; (d.label * 4 + d.val as u32) as i64 }, |b: &mut $bx!(D)| { let d: &mut D = &mut **b; d.val ^= 1; }, |b: &$bx!(D)| { let d: &D = &**b; let mut h = DefaultHasher::new(); d.val.hash(&mut h); (h.finish() % 1000) as i64 + format!("{:?}", d.val).len() as i64 });
                match $term {
                    0 => drop(b),
                    1 => { let d: D = $into_inner!(b); obs.el(&d); drop(d); }
                    2 => { let r: &mut D = $leak(b); obs.n(r.label as i64); }
                    _ => { let p = $into_raw(b); obs.n(unsafe { (*p).label } as i64); }
                }
            }
            1 => {
                let mut b = $new(0x1122_3344_5566_7788u64);
                run_steps!(b, |b: &$bx!(u64)| { let x: &u64 = &**b; (*x % 1_000_003) as i64 }, |b: &mut $bx!(u64)| { let x: &mut u64 = &mut **b; *x = x.wrapping_mul(31).wrapping_add(7); },
                    |b: &$bx!(u64)| { let x: &u64 = &**b; let mut h = DefaultHasher::new(); b.hash(&mut h); let mut h2 = DefaultHasher::new(); x.hash(&mut h2); ((h.finish() == h2.finish()) as i64) * 1000 + format!("{}|{:?}", b, b).len() as i64 + (b.partial_cmp(b) == Some(std::cmp::Ordering::Equal)) as i64 + (*b == *b) as i64 });
                match $term {
                    0 => drop(b),
                    1 => obs.n(($into_inner!(b) % 1_000_003) as i64),
                    2 => { let r: &mut u64 = $leak(b); obs.n((*r % 1_000_003) as i64); }
                    _ => { let p = $into_raw(b); obs.n(unsafe { *p % 1_000_003 } as i64); }
                }
            }
            2 => {
                let mut b = $new(());
                run_steps!(b, |_b: &$bx!(())| 1i64, |_b: &mut $bx!(())| {}, |b: &$bx!(())| format!("{:?}", b).len() as i64);
                match $term {
                    0 => drop(b),
                    1 => { let _: () = $into_inner!(b); }
                    2 => { let _r: &mut () = $leak(b); }
                    _ => { let _p = $into_raw(b); }
                }
            }
            3 => {
                let mut b = $new(Z);
                run_steps!(b, |_b: &$bx!(Z)| 1i64, |_b: &mut $bx!(Z)| {}, |b: &$bx!(Z)| format!("{:?}", b).len() as i64);
                match $term {
                    0 => drop(b),
                    1 => { let z: Z = $into_inner!(b); drop(z); }
                    2 => { let _r: &mut Z = $leak(b); }
                    _ => { let _p = $into_raw(b); }
                }
            }
            4 => {
                let mut b = $slice($build, w);
                run_steps!(b, |b: &$bx!([D])| { let s: &[D] = &**b; s.iter().enumerate().map(|(i, d)| (d.label as i64) * (i as i64 + 1)).sum::<i64>() + s.len() as i64 * 1000 },
                    |b: &mut $bx!([D])| { let s: &mut [D] = &mut **b; s.reverse(); }, |b: &$bx!([D])| { let s: &[D] = &**b; format!("{:?}", s.iter().map(|d| d.val).collect::<Vec<_>>()).len() as i64 });
                match $term {
                    0 => drop(b),
                    1 => { for d in b.iter() { obs.el(d); } drop(b); }
                    2 => { let r: &mut [D] = $leak(b); obs.n(r.len() as i64); }
                    3 => { let p = $into_raw(b); obs.n(unsafe { (*p).len() } as i64); }
                    _ => {
                        // wrong N hands the box back; right N converts
                        match $s2a2(b) {
                            Ok(_) => obs.n(-22),
                            Err(b) => { obs.n(b.len() as i64); match $s2a3(b) { Ok(a) => { for d in a.iter() { obs.el(d); } let back = $arr2s(a); obs.n(back.len() as i64); drop(back); } Err(b) => { obs.n(-33); drop(b); } } }
                        }
                    }
                }
            }
            5 => {
                let mut b = $boxstr(w);
                run_steps!(b, |b: &$bx!(str)| { let s: &str = &**b; s.len() as i64 * 100 + s.chars().count() as i64 }, |b: &mut $bx!(str)| { let s: &mut str = &mut **b; s.make_ascii_uppercase(); },
                    |b: &$bx!(str)| { let s: &str = &**b; let mut h = DefaultHasher::new(); b.hash(&mut h); let mut h2 = DefaultHasher::new(); s.hash(&mut h2); ((h.finish() == h2.finish()) as i64) * 1000 + format!("{}|{:?}", b, b).len() as i64 });
                match $term {
                    0 => drop(b),
                    2 => { let r: &mut str = $leak(b); obs.n(r.len() as i64); }
                    _ => { let p = $into_raw(b); obs.n(unsafe { (*p).len() } as i64); }
                }
            }
            6 => {
                let mut b = $any(w);
                run_steps!(b, |b: &$bx!(dyn Any)| { let a: &dyn Any = &**b; a.downcast_ref::<D>().map_or(-1, |d| d.label as i64) }, |b: &mut $bx!(dyn Any)| { let a: &mut dyn Any = &mut **b; if let Some(d) = a.downcast_mut::<D>() { d.val ^= 1; } }, |b: &$bx!(dyn Any)| { let a: &dyn Any = &**b; a.is::<D>() as i64 });
                match $term {
                    0 => drop(b),
                    1 => match $dc_any(b) { Ok(d) => { obs.el(&d); drop(d); } Err(_) => obs.n(-44) },
                    2 => { let r: &mut dyn Any = $leak(b); obs.n(r.is::<D>() as i64); }
                    3 => { let p = $into_raw(b); obs.n(unsafe { (*p).is::<D>() } as i64); }
                    _ => obs.n(-5),
                }
            }
            7 => {
                let mut b = $anysend(w);
                run_steps!(b, |b: &$bx!(dyn Any + Send)| { let a: &(dyn Any + Send) = &**b; a.downcast_ref::<D>().map_or(-1, |d| d.label as i64) }, |b: &mut $bx!(dyn Any + Send)| { let a: &mut (dyn Any + Send) = &mut **b; if let Some(d) = a.downcast_mut::<D>() { d.val ^= 1; } }, |b: &$bx!(dyn Any + Send)| { let a: &(dyn Any + Send) = &**b; a.is::<D>() as i64 });
                match $term {
                    0 => drop(b),
                    1 => match $dc_anysend(b) { Ok(d) => { obs.el(&d); drop(d); } Err(_) => obs.n(-44) },
                    2 => { let r: &mut (dyn Any + Send) = $leak(b); obs.n(r.is::<D>() as i64); }
                    3 => { let p = $into_raw(b); obs.n(unsafe { (*p).is::<D>() } as i64); }
                    _ => obs.n(-5),
                }
            }
            8 => {
                let mut b = $dynit(w);
                run_steps!(b, |b: &$bx!(OwnIter)| { let (lo, hi) = b.size_hint(); lo as i64 * 10 + hi.unwrap_or(99) as i64 }, |b: &mut $bx!(OwnIter)| { let _ = b.next(); }, |b: &$bx!(OwnIter)| b.len() as i64);
                match $term {
                    0 => drop(b),
                    1 => { obs.n(b.nth(1).map_or(-1, |x| x as i64)); obs.n(b.next_back().map_or(-1, |x| x as i64)); obs.n(b.len() as i64); obs.n(b.last().map_or(-1, |x| x as i64)); }
                    2 => { let r = $leak(b); obs.n(r.next().map_or(-1, |x| x as i64)); }
                    _ => { let _p = $into_raw(b); }
                }
            }
            9 => {
                let mut b = $dynfut(w);
                let wk = noop_waker();
                run_steps!(b, |_b: &$bx!(dyn Future<Output = u32> + Unpin)| 3i64, |b: &mut $bx!(dyn Future<Output = u32> + Unpin)| { let mut cx = Context::from_waker(&wk); let _ = Pin::new(&mut *b).poll(&mut cx); }, |_b: &$bx!(dyn Future<Output = u32> + Unpin)| 4i64);
                match $term {
                    0 => drop(b),
                    1 => { let mut cx = Context::from_waker(&wk); for _ in 0..3 { match Pin::new(&mut b).poll(&mut cx) { Poll::Ready(x) => { obs.n(x as i64); break; } Poll::Pending => obs.n(-1) } } drop(b); }
                    2 => { let _r = $leak(b); }
                    _ => { let _p = $into_raw(b); }
                }
            }
            11 => {
                // zero-sized droppable elements: nothing is stored, only lengths and destructor counts exist
                let mut b = $zslice($build);
                run_steps!(b, |b: &$bx!([Z])| { let s: &[Z] = &**b; s.len() as i64 + 100 }, |b: &mut $bx!([Z])| { let s: &mut [Z] = &mut **b; s.reverse(); }, |b: &$bx!([Z])| { let s: &[Z] = &**b; format!("{:?}", s).len() as i64 });
                match $term {
                    0 => drop(b),
                    1 => { obs.n(b.iter().count() as i64); drop(b); }
                    2 => { let r: &mut [Z] = $leak(b); obs.n(r.len() as i64); }
                    3 => { let p = $into_raw(b); obs.n(unsafe { (*p).len() } as i64); }
                    _ => {
                        match $zs2a2(b) {
                            Ok(_) => obs.n(-22),
                            Err(b) => { obs.n(b.len() as i64); match $zs2a3(b) { Ok(a) => { obs.n(a.len() as i64); let back = $zarr2s(a); obs.n(back.len() as i64); drop(back); } Err(b) => { obs.n(-33); drop(b); } } }
                        }
                    }
                }
            }
            _ => {
                let mut b = $dynhash(w);
                run_steps!(b, |b: &$bx!(dyn Hasher)| (b.finish() % 1000) as i64, |b: &mut $bx!(dyn Hasher)| { b.write(&[1, 2, 3]); b.write_u32(77); }, |b: &$bx!(dyn Hasher)| (b.finish() % 7) as i64);
                match $term {
                    0 => drop(b),
                    1 => { b.write_u8(9); obs.n((b.finish() % 100_000) as i64); drop(b); }
                    2 => { let r = $leak(b); obs.n((r.finish() % 1000) as i64); }
                    _ => { let _p = $into_raw(b); }
                }
            }
        }
    }};
}

macro_rules! bpin {
    ($b:expr) => {{
        let p: Pin<BBox<'static, _>> = $b.into();
        p
    }};
}
macro_rules! spin {
    ($b:expr) => {{
        let p: Pin<Box<_>> = $b.into();
        p
    }};
}
macro_rules! binner {
    ($b:expr) => {
        BBox::into_inner($b)
    };
}
macro_rules! sinner {
    ($b:expr) => {
        *$b
    };
}
macro_rules! BBoxT {
    ($t:ty) => { BBox<'static, $t> };
}
macro_rules! StdBoxT {
    ($t:ty) => { Box<$t> };
}

fn mk3(w: u8) -> [D; 3] {
    [D::new(w, 21, 0), D::new(w, 22, 1), D::new(w, 23, 0)]
}

fn bump_chain(b: &'static Bump, obs: &mut Obs, fam: u8, build: u8, steps: u16, term: u8) {
    chain!(0, obs, fam, build, steps, term, bx = BBoxT,
        new = |x| BBox::new_in(x, b), from_raw = BBox::from_raw, into_raw = BBox::into_raw, leak = BBox::leak, into_inner = binner,
        pin_rt = bpin,
        slice = |build: u8, w: u8| -> BBox<'static, [D]> {
            use bumpalo::collections::CollectIn;
            let bx = match build {
                0 => { let mut v = BVec::new_in(b); for d in mk3(w) { v.push(d); } v.into_boxed_slice() }
                1 => BBox::from_iter_in(mk3(w), b),
                2 => mk3(w).into_iter().collect_in::<BBox<'static, [D]>>(b),
                3 => { let a: BBox<'static, [D; 3]> = BBox::new_in(mk3(w), b); a.into() }
                _ => { let mut v = BVec::with_capacity_in(8, b); for d in mk3(w) { v.push(d); } BBox::from(v) }
            };
            // the arena is used again right after the conversion (an initialised slice): the box must keep its values
            let _filler = b.alloc_slice_fill_copy(96, 0xEEu8);
            bx
        },
        arr_to_slice = |a: BBox<'static, [D; 3]>| -> BBox<'static, [D]> { a.into() },
        slice_to_arr2 = |s: BBox<'static, [D]>| -> Result<BBox<'static, [D; 2]>, BBox<'static, [D]>> { BBox::<[D; 2]>::try_from(s) },
        slice_to_arr3 = |s: BBox<'static, [D]>| -> Result<BBox<'static, [D; 3]>, BBox<'static, [D]>> { BBox::<[D; 3]>::try_from(s) },
        any = |w: u8| -> BBox<'static, dyn Any> { let x = BBox::new_in(D::new(w, 31, 1), b); unsafe { BBox::from_raw(BBox::into_raw(x) as *mut dyn Any) } },
        anysend = |w: u8| -> BBox<'static, dyn Any + Send> { let x = BBox::new_in(D::new(w, 32, 1), b); unsafe { BBox::from_raw(BBox::into_raw(x) as *mut (dyn Any + Send)) } },
        dynit = |w: u8| -> BBox<'static, OwnIter> { BBox::new_in(OwnIter { lo: 0, hi: 6, d: D::new(w, 41, 1) }, b) },
        dynfut = |w: u8| -> BBox<'static, dyn Future<Output = u32> + Unpin> { let x = BBox::new_in(TwoStep { polls: 0, d: D::new(w, 51, 1) }, b); unsafe { BBox::from_raw(BBox::into_raw(x) as *mut (dyn Future<Output = u32> + Unpin)) } },
        dynhash = |w: u8| -> BBox<'static, dyn Hasher> { let x = BBox::new_in(CountHasher { inner: DefaultHasher::new(), d: D::new(w, 61, 1) }, b); unsafe { BBox::from_raw(BBox::into_raw(x) as *mut dyn Hasher) } },
        boxstr = |_w: u8| -> BBox<'static, str> { let s = bumpalo::collections::String::from_str_in("héllo€", b); let r: &'static mut str = s.into_bump_str_mut_compat(); unsafe { BBox::from_raw(r as *mut str) } },
        downcast_any = |bx: BBox<'static, dyn Any>| -> Result<D, ()> { match bx.downcast::<u32>() { Ok(_) => Err(()), Err(bx) => match bx.downcast::<D>() { Ok(d) => Ok(BBox::into_inner(d)), Err(_) => Err(()) } } },
        downcast_anysend = |bx: BBox<'static, dyn Any + Send>| -> Result<D, ()> { match bx.downcast::<u32>() { Ok(_) => Err(()), Err(bx) => match bx.downcast::<D>() { Ok(d) => Ok(BBox::into_inner(d)), Err(_) => Err(()) } } },
        zslice = |build: u8| -> BBox<'static, [Z]> {
            use bumpalo::collections::CollectIn;
            match build {
                0 => { let mut v = BVec::new_in(b); for z in [Z, Z, Z] { v.push(z); } v.into_boxed_slice() }
                1 => BBox::from_iter_in([Z, Z, Z], b),
                2 => [Z, Z, Z].into_iter().collect_in::<BBox<'static, [Z]>>(b),
                3 => { let a: BBox<'static, [Z; 3]> = BBox::new_in([Z, Z, Z], b); a.into() }
                _ => { let mut v = BVec::with_capacity_in(8, b); for z in [Z, Z, Z] { v.push(z); } BBox::from(v) }
            }
        },
        zarr_to_slice = |a: BBox<'static, [Z; 3]>| -> BBox<'static, [Z]> { a.into() },
        zslice_to_arr2 = |s: BBox<'static, [Z]>| -> Result<BBox<'static, [Z; 2]>, BBox<'static, [Z]>> { BBox::<[Z; 2]>::try_from(s) },
        zslice_to_arr3 = |s: BBox<'static, [Z]>| -> Result<BBox<'static, [Z; 3]>, BBox<'static, [Z]>> { BBox::<[Z; 3]>::try_from(s) }
    );
}

fn std_chain(obs: &mut Obs, fam: u8, build: u8, steps: u16, term: u8) {
    chain!(1, obs, fam, build, steps, term, bx = StdBoxT,
        new = |x| Box::new(x), from_raw = Box::from_raw, into_raw = Box::into_raw, leak = Box::leak, into_inner = sinner,
        pin_rt = spin,
        slice = |build: u8, w: u8| -> Box<[D]> {
            match build {
                0 | 4 => mk3(w).into_iter().collect::<Vec<D>>().into_boxed_slice(),
                1 | 2 => mk3(w).into_iter().collect::<Box<[D]>>(),
                _ => { let a: Box<[D; 3]> = Box::new(mk3(w)); a }
            }
        },
        arr_to_slice = |a: Box<[D; 3]>| -> Box<[D]> { a },
        slice_to_arr2 = |s: Box<[D]>| -> Result<Box<[D; 2]>, Box<[D]>> { Box::<[D; 2]>::try_from(s) },
        slice_to_arr3 = |s: Box<[D]>| -> Result<Box<[D; 3]>, Box<[D]>> { Box::<[D; 3]>::try_from(s) },
        any = |w: u8| -> Box<dyn Any> { Box::new(D::new(w, 31, 1)) },
        anysend = |w: u8| -> Box<dyn Any + Send> { Box::new(D::new(w, 32, 1)) },
        dynit = |w: u8| -> Box<OwnIter> { Box::new(OwnIter { lo: 0, hi: 6, d: D::new(w, 41, 1) }) },
        dynfut = |w: u8| -> Box<dyn Future<Output = u32> + Unpin> { Box::new(TwoStep { polls: 0, d: D::new(w, 51, 1) }) },
        dynhash = |w: u8| -> Box<dyn Hasher> { Box::new(CountHasher { inner: DefaultHasher::new(), d: D::new(w, 61, 1) }) },
        boxstr = |_w: u8| -> Box<str> { String::from("héllo€").into_boxed_str() },
        downcast_any = |bx: Box<dyn Any>| -> Result<D, ()> { match bx.downcast::<u32>() { Ok(_) => Err(()), Err(bx) => match bx.downcast::<D>() { Ok(d) => Ok(*d), Err(_) => Err(()) } } },
        downcast_anysend = |bx: Box<dyn Any + Send>| -> Result<D, ()> { match bx.downcast::<u32>() { Ok(_) => Err(()), Err(bx) => match bx.downcast::<D>() { Ok(d) => Ok(*d), Err(_) => Err(()) } } },
        zslice = |build: u8| -> Box<[Z]> {
            match build {
                0 | 4 => [Z, Z, Z].into_iter().collect::<Vec<Z>>().into_boxed_slice(),
                1 | 2 => [Z, Z, Z].into_iter().collect::<Box<[Z]>>(),
                _ => { let a: Box<[Z; 3]> = Box::new([Z, Z, Z]); a }
            }
        },
        zarr_to_slice = |a: Box<[Z; 3]>| -> Box<[Z]> { a },
        zslice_to_arr2 = |s: Box<[Z]>| -> Result<Box<[Z; 2]>, Box<[Z]>> { Box::<[Z; 2]>::try_from(s) },
        zslice_to_arr3 = |s: Box<[Z]>| -> Result<Box<[Z; 3]>, Box<[Z]>> { Box::<[Z; 3]>::try_from(s) }
    );
}

trait StrCompat {
    fn into_bump_str_mut_compat(self) -> &'static mut str;
}
impl StrCompat for bumpalo::collections::String<'static> {
    fn into_bump_str_mut_compat(self) -> &'static mut str {
        // String has no into_bump_str_mut: go through the byte vector
        let v = self.into_bytes();
        let s = v.into_bump_slice_mut();
        unsafe { std::str::from_utf8_unchecked_mut(s) }
    }
}

/// (group, |a|, |b|)
const FW_GROUPS: [(u8, u8, u8); 10] = [(0, 5, 5), (1, 6, 6), (2, 6, 6), (3, 5, 5), (4, 14, 1), (5, 6, 6), (6, 4, 1), (7, 3, 1), (8, 2, 1), (9, 6, 1)];
const FW_NAMES: [&str; 10] = ["u64 pair: compare/hash/format", "f64 pair: partial compare/format", "str pair: compare/hash/format", "[u8] pair: compare/hash/format", "Hasher write_* forwarding", "Iterator method pairs", "Borrow/AsRef/AsMut/Deref/Pointer", "Future polling", "Default for Box<[T]> / Box<str>", "from_iter_in at scale"];
const FW_U64: [u64; 5] = [0, 5, 7, 255, u64::MAX];
const FW_F64: [f64; 6] = [f64::NAN, -0.0, 0.0, 1.5, -2.25, f64::INFINITY];
const FW_STR: [&str; 6] = ["", "a", "ab", "b", "é€", "a\n\"q"];
const FW_BYTES: [&[u8]; 5] = [&[], &[0], &[0, 1], &[1], &[255, 0, 7]];

/// Every write to the hasher is recorded with the method that received it.
#[derive(Default)]
struct RecHasher {
    log: Vec<(u8, u128)>,
}
impl Hasher for RecHasher {
    fn finish(&self) -> u64 {
        self.log.iter().fold(17u64, |a, (m, x)| a.wrapping_mul(1_000_003).wrapping_add((*m as u64).wrapping_mul(31).wrapping_add(*x as u64)))
    }
    fn write(&mut self, b: &[u8]) {
        self.log.push((0, b.iter().fold(b.len() as u128, |a, x| a * 257 + *x as u128)))
    }
    fn write_u8(&mut self, i: u8) { self.log.push((1, i as u128)) }
    fn write_u16(&mut self, i: u16) { self.log.push((2, i as u128)) }
    fn write_u32(&mut self, i: u32) { self.log.push((3, i as u128)) }
    fn write_u64(&mut self, i: u64) { self.log.push((4, i as u128)) }
    fn write_u128(&mut self, i: u128) { self.log.push((5, i)) }
    fn write_usize(&mut self, i: usize) { self.log.push((6, i as u128)) }
    fn write_i8(&mut self, i: i8) { self.log.push((7, i as u128)) }
    fn write_i16(&mut self, i: i16) { self.log.push((8, i as u128)) }
    fn write_i32(&mut self, i: i32) { self.log.push((9, i as u128)) }
    fn write_i64(&mut self, i: i64) { self.log.push((10, i as u128)) }
    fn write_i128(&mut self, i: i128) { self.log.push((11, i as u128)) }
    fn write_isize(&mut self, i: isize) { self.log.push((12, i as u128)) }
}

/// Iterator with its own (contract-abiding) `nth`/`last`/`nth_back`/`len`: a wrapper may forward to
/// them or use the defaults (bumpalo's `last` folds, std's forwards), the answers must agree.
struct OddIter {
    lo: u32,
    hi: u32,
}
impl Iterator for OddIter {
    type Item = u32;
    fn next(&mut self) -> Option<u32> {
        if self.lo < self.hi { self.lo += 1; Some(self.lo - 1) } else { None }
    }
    fn size_hint(&self) -> (usize, Option<usize>) {
        ((self.hi - self.lo) as usize, Some((self.hi - self.lo) as usize))
    }
    fn nth(&mut self, n: usize) -> Option<u32> {
        self.lo = (self.lo + n as u32).min(self.hi);
        self.next()
    }
    fn last(mut self) -> Option<u32> {
        self.next_back()
    }
}
impl DoubleEndedIterator for OddIter {
    fn next_back(&mut self) -> Option<u32> {
        if self.lo < self.hi { self.hi -= 1; Some(self.hi) } else { None }
    }
    fn nth_back(&mut self, n: usize) -> Option<u32> {
        self.hi = self.hi.saturating_sub(n as u32).max(self.lo);
        self.next_back()
    }
}
impl ExactSizeIterator for OddIter {
    fn len(&self) -> usize {
        (self.hi - self.lo) as usize
    }
}

macro_rules! fmt_all_display {
    ($out:expr, $x:expr) => {{
        let x = $x;
        $out.push(format!("{}|{:>7}|{:<7}|{:^7}|{:*^9}|{:+}|{:08}|{:.2}|{:10.3}|{:-<6.1}|{:#}|{:w$}|{:.p$}|{:>w$.p$}", x, x, x, x, x, x, x, x, x, x, x, x, x, x, w = 6, p = 1));
    }};
}
macro_rules! fmt_all_str {
    ($out:expr, $x:expr) => {{
        let x = $x;
        $out.push(format!("{}|{:>7}|{:<7}|{:^7}|{:*^9}|{:.1}|{:10.3}|{:-<6.1}|{:w$}|{:.p$}|{:>w$.p$}", x, x, x, x, x, x, x, x, x, x, x, w = 6, p = 1));
    }};
}
macro_rules! fmt_all_debug {
    ($out:expr, $x:expr) => {{
        let x = $x;
        $out.push(format!("{:?}|{:#?}|{:>12?}|{:<12?}|{:*^14?}|{:08?}|{:+?}|{:x?}|{:#X?}|{:.1?}", x, x, x, x, x, x, x, x, x, x));
    }};
}
macro_rules! cmp_all {
    ($out:expr, $a:expr, $b:expr) => {{
        let (a, b) = ($a, $b);
        $out.push(format!("eq{} ne{} pc{:?} lt{} le{} ge{} gt{} | rev eq{} ne{} pc{:?} lt{} le{} ge{} gt{}", a == b, a != b, a.partial_cmp(b), a < b, a <= b, a >= b, a > b, b == a, b != a, b.partial_cmp(a), b < a, b <= a, b >= a, b > a));
    }};
}
macro_rules! hash_fwd {
    ($out:expr, $a:expr) => {{
        let mut h = RecHasher::default();
        $a.hash(&mut h);
        $out.push(format!("hash{:?}", h.log));
    }};
}

/// One forwarding case in one world. `$mk` boxes a sized value, `$mks`/`$mkb` box a str / byte slice.
macro_rules! forwarding {
    ($out:expr, $g:expr, $a:expr, $b:expr, bx = $bx:ident, mk = $mk:expr, pin = $pin:expr, many_u64 = $mu64:expr, many_big = $mbig:expr, many_u8 = $mu8:expr, mk_str = $mks:expr, mk_bytes = $mkb:expr, dynhash = $dh:expr, dynfut = $df:expr) => {{
        let out: &mut Vec<String> = $out;
        let (ai, bi) = ($a as usize, $b as usize);
        match $g {
            0 => {
                let (x, y) = ($mk(FW_U64[ai]), $mk(FW_U64[bi]));
                let _g = Callback::enter();
                cmp_all!(out, &x, &y);
                out.push(format!("cmp{:?} max{} ", x.cmp(&y), *(&x).max(&y)));
                hash_fwd!(out, x);
                fmt_all_display!(out, &x);
                fmt_all_debug!(out, &x);
            }
            1 => {
                let (x, y) = ($mk(FW_F64[ai]), $mk(FW_F64[bi]));
                let _g = Callback::enter();
                cmp_all!(out, &x, &y);
                fmt_all_display!(out, &x);
                fmt_all_debug!(out, &x);
            }
            2 => {
                let (x, y) = ($mks(FW_STR[ai]), $mks(FW_STR[bi]));
                let _g = Callback::enter();
                cmp_all!(out, &x, &y);
                out.push(format!("cmp{:?}", x.cmp(&y)));
                hash_fwd!(out, x);
                fmt_all_str!(out, &x);
                fmt_all_debug!(out, &x);
            }
            3 => {
                let (x, y) = ($mkb(FW_BYTES[ai]), $mkb(FW_BYTES[bi]));
                let _g = Callback::enter();
                cmp_all!(out, &x, &y);
                out.push(format!("cmp{:?}", x.cmp(&y)));
                hash_fwd!(out, x);
                fmt_all_debug!(out, &x);
            }
            4 => {
                // every Hasher method, on a sized box and on a boxed trait object
                let mut x = $mk(RecHasher::default());
                let mut d = $dh(RecHasher::default());
                let _g = Callback::enter();
                macro_rules! both { ($m:ident, $v:expr) => {{ x.$m($v); d.$m($v); }}; }
                match ai {
                    0 => both!(write, &[1u8, 2, 3][..]),
                    1 => both!(write_u8, 0x81),
                    2 => both!(write_u16, 0x8122),
                    3 => both!(write_u32, 0x8122_3344),
                    4 => both!(write_u64, 0x8122_3344_5566_7788),
                    5 => both!(write_u128, 0x8122_3344_5566_7788_99aa_bbcc_ddee_ff00),
                    6 => both!(write_usize, 0x8122_3344_5566_7788),
                    7 => both!(write_i8, -3),
                    8 => both!(write_i16, -300),
                    9 => both!(write_i32, -70_000),
                    10 => both!(write_i64, -5_000_000_000),
                    11 => both!(write_i128, -(1i128 << 100)),
                    12 => both!(write_isize, -77),
                    _ => { both!(write_u8, 1); both!(write_u16, 2); both!(write, &[][..]); }
                }
                out.push(format!("sized log {:?} finish {} | dyn finish {}", x.log, x.finish(), d.finish()));
            }
            5 => {
                // two iterator calls in sequence, then what is left
                let mut it = $mk(OddIter { lo: 0, hi: 7 });
                let _g = Callback::enter();
                for op in [ai, bi] {
                    match op {
                        0 => out.push(format!("next{:?}", it.next())),
                        1 => out.push(format!("next_back{:?}", it.next_back())),
                        2 => out.push(format!("nth2{:?}", it.nth(2))),
                        3 => out.push(format!("nth_back1{:?}", it.nth_back(1))),
                        4 => out.push(format!("size_hint{:?} len{}", it.size_hint(), it.len())),
                        _ => out.push(format!("nth9{:?}", it.nth(9))),
                    }
                }
                out.push(format!("hint{:?} len{}", it.size_hint(), it.len()));
                out.push(format!("last{:?}", it.last()));
            }
            6 => {
                use std::borrow::{Borrow, BorrowMut};
                let mut x = $mk(FW_U64[ai + 1]);
                let _g = Callback::enter();
                let addr = &*x as *const u64 as usize;
                let b1: &u64 = x.borrow();
                let (b1v, b1a) = (*b1, b1 as *const u64 as usize == addr);
                let r1: &u64 = x.as_ref();
                let (r1v, r1a) = (*r1, r1 as *const u64 as usize == addr);
                { let m: &mut u64 = x.as_mut(); *m = m.wrapping_add(1); }
                { let m: &mut u64 = x.borrow_mut(); *m = m.wrapping_mul(3); }
                *x ^= 0x55;
                let p = format!("{:p}", x);
                {
                    // pin_in: the pinned box derefs to the value and gives it back
                    let mut pinned = $pin(FW_U64[ai + 1] ^ 0x77);
                    let v0: u64 = *pinned;
                    *pinned.as_mut().get_mut() = v0.wrapping_add(3);
                    out.push(format!("pinned{} then{}", v0, *pinned));
                }
                out.push(format!("borrow{} {} as_ref{} {} after{} pointer_is_value_address{} pfmt{}", b1v, b1a, r1v, r1a, *x, p == format!("{:p}", addr as *const u64), format!("{:18p}", x).len()));
            }
            9 => {
                // boxed slices built from long iterators: several pages of elements, elements of 1 KiB
                match ai {
                    0 | 1 | 2 => {
                        let n = [512u64, 513, 5000][ai];
                        let x = $mu64(n, true);
                        let y = $mu64(n, false);
                        let _g = Callback::enter();
                        out.push(format!("len{} {} sum{} {} last{:?} {:?}", x.len(), y.len(), x.iter().fold(0u64, |a, v| a.wrapping_mul(31).wrapping_add(*v)), y.iter().fold(0u64, |a, v| a.wrapping_mul(31).wrapping_add(*v)), x.last(), y.last()));
                    }
                    3 | 4 => {
                        let n = [4usize, 9][ai - 3];
                        let x = $mbig(n);
                        let _g = Callback::enter();
                        out.push(format!("len{} firsts{:?}", x.len(), x.iter().map(|e| e[0] as u32 + e[1023] as u32).collect::<Vec<_>>()));
                    }
                    _ => {
                        let x = $mu8(10_000);
                        let _g = Callback::enter();
                        out.push(format!("len{} sum{}", x.len(), x.iter().fold(0u64, |a, v| a.wrapping_mul(31).wrapping_add(*v as u64))));
                    }
                }
            }
            8 => {
                let _g = Callback::enter();
                if ai == 0 {
                    let d: $bx!([D]) = Default::default();
                    let e: $bx!([u64]) = Default::default();
                    out.push(format!("len{} {} {:?} aligned{}", d.len(), e.len(), e, (e.as_ptr() as usize) % std::mem::align_of::<u64>() == 0));
                    drop(d);
                } else {
                    let d: $bx!(str) = Default::default();
                    out.push(format!("str{:?} len{} eq{}", d, d.len(), &*d == ""));
                }
            }
            _ => {
                let wk = noop_waker();
                let mut cx = Context::from_waker(&wk);
                let mut f = $df(TwoStep { polls: 0, d: D::new(9, 71, 0) });
                let _g = Callback::enter();
                for _ in 0..=ai {
                    out.push(format!("poll{:?}", Pin::new(&mut f).poll(&mut cx)));
                }
            }
        }
    }};
}

fn run_forwarding(envp: *mut ExecEnv, g: u8, a: u8, b: u16, v: &mut Vec<Violation>) -> u64 {
    reset_ledgers();
    let bump: *mut Bump = Box::into_raw(Box::new(arena_op(envp, 0, 0, &[], || Bump::with_capacity(2048)).unwrap()));
    let bref: &'static Bump = unsafe { &*bump };
    let mut o0: Vec<String> = Vec::new();
    let mut o1: Vec<String> = Vec::new();
    let r0 = {
        let o = &mut o0;
        arena_op(envp, 1, 0, &[], || {
            forwarding!(o, g, a, b, bx = BBoxT, mk = |x| BBox::new_in(x, bref), pin = |x| BBox::pin_in(x, bref),
                many_u64 = |n: u64, exact: bool| -> BBox<'static, [u64]> { if exact { BBox::from_iter_in((0..n).map(|i| i * 3 + 1), bref) } else { BBox::from_iter_in((0..n).filter(|i| i % 7 != 6).map(|i| i * 3 + 1), bref) } },
                many_big = |n: usize| -> BBox<'static, [[u8; 1024]]> { use bumpalo::collections::CollectIn; (0..n).map(|i| [i as u8; 1024]).collect_in::<BBox<'static, [[u8; 1024]]>>(bref) },
                many_u8 = |n: usize| -> BBox<'static, [u8]> { BBox::from_iter_in((0..n).map(|i| (i % 251) as u8), bref) },
                mk_str = |s: &str| -> BBox<'static, str> { let r: &'static mut str = bumpalo::collections::String::from_str_in(s, bref).into_bump_str_mut_compat(); unsafe { BBox::from_raw(r as *mut str) } },
                mk_bytes = |s: &[u8]| -> BBox<'static, [u8]> { BBox::from_iter_in(s.iter().copied(), bref) },
                dynhash = |h: RecHasher| -> BBox<'static, dyn Hasher> { let x = BBox::new_in(h, bref); unsafe { BBox::from_raw(BBox::into_raw(x) as *mut dyn Hasher) } },
                dynfut = |f: TwoStep| -> BBox<'static, dyn Future<Output = u32> + Unpin> { let x = BBox::new_in(f, bref); unsafe { BBox::from_raw(BBox::into_raw(x) as *mut (dyn Future<Output = u32> + Unpin)) } })
        })
    };
    let r1 = {
        let o = &mut o1;
        let _g = Callback::enter();
        crate::util::quiet(|| catch_unwind(AssertUnwindSafe(|| {
            forwarding!(o, g, a, b, bx = StdBoxT, mk = |x| Box::new(x), pin = |x| Box::pin(x),
                many_u64 = |n: u64, exact: bool| -> Box<[u64]> { if exact { (0..n).map(|i| i * 3 + 1).collect() } else { (0..n).filter(|i| i % 7 != 6).map(|i| i * 3 + 1).collect() } },
                many_big = |n: usize| -> Box<[[u8; 1024]]> { (0..n).map(|i| [i as u8; 1024]).collect() },
                many_u8 = |n: usize| -> Box<[u8]> { (0..n).map(|i| (i % 251) as u8).collect() },
                mk_str = |s: &str| -> Box<str> { String::from(s).into_boxed_str() },
                mk_bytes = |s: &[u8]| -> Box<[u8]> { s.to_vec().into_boxed_slice() },
                dynhash = |h: RecHasher| -> Box<dyn Hasher> { Box::new(h) },
                dynfut = |f: TwoStep| -> Box<dyn Future<Output = u32> + Unpin> { Box::new(f) })
        })).map_err(|p| classify_panic(&*p)))
    };
    let name = FW_NAMES[g as usize];
    let ctx = format!("Box forwarding, {name}, case ({a},{b})");
    let mut h = Hasher128::new();
    match (&r0, &r1) {
        (Ok(()), Ok(())) => {
            for (i, (x, y)) in o0.iter().zip(o1.iter()).enumerate() {
                if x != y {
                    v.push(Violation { prop: 17, clause: "forwarding_differs", key: format!("forwarding_differs/{name}/obs{i}"), detail: format!("{ctx}: bumpalo Box gave `{x}`, std Box gave `{y}`"), unsafe_mem: false });
                    break;
                }
            }
            if o0.len() != o1.len() {
                v.push(Violation { prop: 17, clause: "forwarding_differs", key: format!("forwarding_differs/{name}/count"), detail: format!("{ctx}: {} observations, std {}", o0.len(), o1.len()), unsafe_mem: false });
            }
            for x in &o0 {
                for c in x.bytes() { h.u(c as u64); }
            }
        }
        (Err(p), _) => v.push(Violation { prop: 17, clause: "box_operation_panicked", key: format!("box_operation_panicked/{name}"), detail: format!("{ctx}: panicked {:?}", p), unsafe_mem: false }),
        (Ok(()), Err(p)) => v.push(Violation { prop: 17, clause: "std_panicked_only", key: format!("std_panicked_only/{name}"), detail: format!("{ctx}: std panicked {:?}", p), unsafe_mem: false }),
    }
    let _ = arena_op(envp, 3, 0, &[], || unsafe { std::ptr::drop_in_place(bump) });
    drop(unsafe { Box::from_raw(bump as *mut std::mem::ManuallyDrop<Bump>) });
    h.finish64()
}

pub fn run_case(envp: *mut ExecEnv, fam: u8, build: u8, steps: u16, term: u8, fault: u8, v: &mut Vec<Violation>) -> u64 {
    if fam >= 100 {
        return run_forwarding(envp, fam - 100, build, steps, v);
    }
    reset_ledgers();
    zdrops_reset();
    let bump: *mut Bump = Box::into_raw(Box::new(arena_op(envp, 0, 0, &[], || Bump::with_capacity(2048)).unwrap()));
    let bref: &'static Bump = unsafe { &*bump };
    let held0 = unsafe { ((*envp).live_count(0), (*envp).live_bytes(0)) };
    let mut o0 = Obs::default();
    let mut o1 = Obs::default();
    if fault != 255 {
        arm_fault(K_DROP, fault as u32);
    }
    ZWORLD.with(|w| w.set(0));
    let r0 = {
        let o = &mut o0;
        arena_op(envp, 1, 0, &[], || bump_chain(bref, o, fam, build, steps, term))
    };
    let fired = fault != 255 && !disarm_fault();
    let _ = disarm_fault();
    let mut push = |prop: u8, clause: &'static str, key: String, detail: String| v.push(Violation { prop, clause, key, detail, unsafe_mem: false });
    let what = FAMILIES[fam as usize];
    let ctx = format!("Box of {what}, built by #{build}, steps {:?}, terminal `{}`", (0..4).map(|j| STEP_NAMES[((steps >> (3 * j)) & 7) as usize]).filter(|s| *s != "-").collect::<Vec<_>>(), TERM_NAMES[term as usize]);
    let mut h = Hasher128::new();
    if fault != 255 {
        // ---- C16: panicking destructor while the Box dies
        h.u(fired as u64);
        if fired {
            if let Some(l) = first_double_drop(0) {
                push(16, "double_drop", format!("double_drop/box_drop/{}", if fam == 4 { "slice" } else { "sized" }), format!("{ctx}: destructor #{fault} panicked; value {l} was dropped twice"));
            }
            let r = arena_op(envp, 2, 0, &[], || bref.alloc(5u64) as *mut u64 as usize);
            if r.is_err() {
                push(16, "arena_unusable_after_panic", "arena_unusable_after_panic/box_drop".into(), format!("{ctx}: arena unusable after the caught panic"));
            }
        }
    } else {
        ZWORLD.with(|w| w.set(1));
        let r1 = {
            let o = &mut o1;
            let _g = Callback::enter();
            crate::util::quiet(|| catch_unwind(AssertUnwindSafe(|| std_chain(o, fam, build, steps, term))).map_err(|p| classify_panic(&*p)))
        };
        ZWORLD.with(|w| w.set(0));
        match (&r0, &r1) {
            (Ok(()), Ok(())) => {
                if o0 != o1 {
                    push(17, "observations_differ", format!("observations_differ/{what}"), format!("{ctx}: observed {:?}, std Box observed {:?}", o0.items(), o1.items()));
                }
                for x in o0.items() {
                    h.u(*x as u64);
                }
            }
            (Err(p), _) => push(17, "box_operation_panicked", format!("box_operation_panicked/{what}"), format!("{ctx}: panicked {:?}", p)),
            (Ok(()), Err(p)) => push(17, "std_panicked_only", format!("std_panicked_only/{what}"), format!("{ctx}: std panicked {:?}", p)),
        }
        let (d0, d1) = (dropped(0), dropped(1));
        if d0 != d1 {
            let kind = if first_double_drop(0).is_some() { "double_drop" } else if d0.len() > d1.len() { "dropped_but_should_be_leaked_or_moved" } else { "not_dropped" };
            push(17, "drops_differ_from_std", format!("drops_differ_from_std/{what}/{kind}"), format!("{ctx}: destructors run for {:?}, std ran {:?}", d0, d1));
            push(15, "drops_differ_from_std", format!("drops_differ_from_std/box/{kind}"), format!("{ctx}: destructors run for {:?}, std ran {:?}", d0, d1));
        }
        let z = zdrops();
        if z[0] != z[1] {
            push(17, "drops_differ_from_std", format!("drops_differ_from_std/{what}/zst_count"), format!("{ctx}: {} zero-sized values dropped, std {}", z[0], z[1]));
        }
    }
    // the Box never releases (or acquires) arena memory by dying
    let held1 = unsafe { ((*envp).live_count(0), (*envp).live_bytes(0)) };
    if held1 != held0 || unsafe { !(*envp).frees.is_empty() } {
        push(17, "box_changed_arena_memory", "box_changed_arena_memory".into(), format!("{ctx}: arena held {:?} before, {:?} after", held0, held1));
    }
    let faults: Vec<crate::env::EnvFault> = unsafe { (*envp).faults.clone() };
    for f in faults {
        push(17, "allocator_misuse", "allocator_misuse/box".into(), format!("{ctx}: {:?}", f));
    }
    unsafe { (*envp).faults.clear() };
    let before = dropped(0).len();
    let _ = arena_op(envp, 3, 0, &[], || unsafe { std::ptr::drop_in_place(bump) });
    drop(unsafe { Box::from_raw(bump as *mut std::mem::ManuallyDrop<Bump>) });
    if dropped(0).len() != before {
        push(15, "arena_drop_ran_destructors", "arena_drop_ran_destructors/box".into(), format!("{ctx}: dropping the arena ran destructors of leaked values"));
    }
    let _ = PanicClass::Oom;
    h.finish64()
}
