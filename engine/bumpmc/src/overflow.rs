//! C19 grid: every size-taking entry point × element size × counts on both sides of every
//! overflow boundary. Oracle: impossible totals end in Err (fallible) / panic (infallible); any Ok
//! describes memory really reserved (inside a block the arena holds); lengths never wrap.

use crate::env::{Callback, ExecEnv};
use crate::grid::Case;
use crate::mc::Violation;
use crate::util::{arena_op, classify_panic, injected_panic, Hasher128, PanicClass};
use bumpalo::collections::{String as BString, Vec as BVec};
use bumpalo::Bump;

pub const N_ENTRY: u8 = 29;
pub const N_ESZ: u8 = 7;
pub const N_CNT: u8 = 16;

const ENTRY_NAMES: [&str; 29] = [
    "Bump::try_with_capacity", "Bump::with_capacity", "Bump::try_with_min_align_and_capacity", "Bump::with_min_align_and_capacity",
    "alloc_slice_fill_with", "try_alloc_slice_fill_with", "alloc_slice_fill_copy", "try_alloc_slice_fill_copy", "alloc_slice_fill_clone", "try_alloc_slice_fill_clone",
    "alloc_slice_fill_default", "try_alloc_slice_fill_default", "alloc_slice_fill_iter", "try_alloc_slice_fill_iter", "alloc_slice_try_fill_with", "alloc_slice_try_fill_iter",
    "Vec::with_capacity_in", "Vec::reserve", "Vec::reserve_exact", "Vec::try_reserve", "Vec::try_reserve_exact", "Vec::resize", "Vec::extend_from_slice_copy", "Vec::extend_from_slices_copy",
    "Vec::push(len=usize::MAX)", "Vec::insert(len=usize::MAX)", "String::with_capacity_in", "String::reserve", "String::reserve_exact",
];
const ESZ: [usize; 7] = [0, 1, 3, 8, 24, (1 << 20) + 1, 1 << 40];

fn entry_fallible(e: u8) -> bool {
    matches!(e, 0 | 2 | 5 | 7 | 9 | 11 | 13 | 19 | 20)
}

pub fn count_value(cnt: u8, size: usize, align: usize) -> usize {
    let s = size.max(1);
    let im = isize::MAX as usize;
    match cnt {
        0 => 0,
        1 => 1,
        2 => usize::MAX / s - 1,
        3 => usize::MAX / s,
        4 => (usize::MAX / s).wrapping_add(1),
        5 => im / s - 1,
        6 => im / s,
        7 => im / s + 1,
        8 => (im - (align - 1)) / s,
        9 => (im - (align - 1)) / s + 1,
        10 => usize::MAX - 1,
        11 => usize::MAX,
        12 => (1 << 20) / s + 1,
        13 => 1000,
        14 => usize::MAX - 2,
        _ => usize::MAX - 3,
    }
}

pub fn cases(_thorough: bool) -> Vec<Case> {
    let mut c = Vec::new();
    for entry in 0..N_ENTRY {
        for esz in 0..N_ESZ {
            for cnt in 0..N_CNT {
                for m in [1u8, 2, 4, 8, 16] {
                    for nonempty in [false, true] {
                        if !applicable(entry, esz, m, nonempty) {
                            continue;
                        }
                        c.push(Case::Ovf { entry, esz, cnt, m, nonempty });
                    }
                }
            }
        }
    }
    c
}

fn applicable(entry: u8, esz: u8, m: u8, nonempty: bool) -> bool {
    let coll = entry >= 16;
    if coll && m != 1 {
        return false; // collections exist only for Bump<1>
    }
    if (entry == 0 || entry == 1) && m != 1 {
        return false;
    }
    if entry <= 3 {
        return esz == 1 && !nonempty; // capacity in bytes
    }
    if entry <= 15 && nonempty {
        return false;
    }
    if entry >= 4 && entry <= 15 && esz == 6 {
        return false; // gigantic element types only through the Vec capacity family (no value needed)
    }
    if entry == 21 && esz >= 5 {
        return false;
    }
    if matches!(entry, 10 | 11) {
        return esz == 0 || esz == 3; // Default-constructible probes: ZST and 8-byte
    }
    if matches!(entry, 22 | 23 | 24 | 25) {
        return esz == 0; // only expressible for zero-sized elements
    }
    if entry >= 26 {
        return esz == 1;
    }
    true
}

pub fn describe(entry: u8, esz: u8, cnt: u8, m: u8, nonempty: bool) -> serde_json::Value {
    let size = elem_size(entry, esz);
    let align = elem_align(esz);
    serde_json::json!({
        "entry_point": ENTRY_NAMES[entry as usize], "element_size": size, "count": count_value(cnt, size, align).to_string(), "count_class": cnt,
        "min_align": m, "container_nonempty_before": nonempty,
    })
}

fn elem_size(entry: u8, esz: u8) -> usize {
    if esz == 5 && entry < 16 {
        4096
    } else {
        ESZ[esz as usize]
    }
}

fn elem_align(esz: u8) -> usize {
    match esz {
        3 => 8,
        _ => 1,
    }
}

#[derive(Debug, PartialEq)]
enum Oc {
    /// success; (address, bytes claimed, new_len/cap info)
    Ok { addr: usize, bytes: u128, len_after: u128, len_expected: u128 },
    Err,
    Panic(PanicClass),
    /// the callback was reached: the reservation claimed success (we abort the fill by panicking)
    Reached,
}

#[derive(Clone, Copy, Default)]
struct Z;
#[derive(Clone, Copy)]
struct PanicClone<T: Copy>(T);
// Clone that panics: reaching it means space was (claimed to be) reserved
#[derive(Copy)]
struct PC<T: Copy>(T);
impl<T: Copy> Clone for PC<T> {
    fn clone(&self) -> Self {
        let _g = Callback::enter();
        injected_panic()
    }
}
struct PD<T>(T);
impl<T> Default for PD<T> {
    fn default() -> Self {
        let _g = Callback::enter();
        injected_panic()
    }
}
struct LyingIter<T> {
    n: usize,
    _p: std::marker::PhantomData<T>,
}
impl<T> Iterator for LyingIter<T> {
    type Item = T;
    fn next(&mut self) -> Option<T> {
        let _g = Callback::enter();
        injected_panic()
    }
    fn size_hint(&self) -> (usize, Option<usize>) {
        (self.n, Some(self.n))
    }
}
impl<T> ExactSizeIterator for LyingIter<T> {}

fn run_typed<T: Copy + 'static, const M: usize>(envp: *mut ExecEnv, entry: u8, n: usize, nonempty: bool, dummy: Option<T>) -> Oc {
    let size = std::mem::size_of::<T>();
    // arena built outside the judged operation
    let b: Bump<M> = arena_op(envp, 0, 0, &[], || Bump::<M>::with_min_align()).unwrap();
    let b1: &Bump<1> = unsafe { &*(&b as *const Bump<M> as *const Bump<1>) };
    let r = arena_op(envp, 1, 0, &[], || -> Oc {
        let ok_slice = |p: *const T, len: usize| Oc::Ok { addr: p as usize, bytes: len as u128 * size as u128, len_after: len as u128, len_expected: n as u128 };
        match entry {
            4 => { let s = b.alloc_slice_fill_with::<T, _>(n, |_| { let _g = Callback::enter(); injected_panic() }); ok_slice(s.as_ptr(), s.len()) }
            5 => match b.try_alloc_slice_fill_with::<T, _>(n, |_| { let _g = Callback::enter(); injected_panic() }) { Ok(s) => ok_slice(s.as_ptr(), s.len()), Err(_) => Oc::Err },
            6 => { if size == 0 && n > 4096 { return Oc::Err; } let s = b.alloc_slice_fill_copy(n, dummy.unwrap()); ok_slice(s.as_ptr(), s.len()) }
            7 => { if size == 0 && n > 4096 { return Oc::Err; } match b.try_alloc_slice_fill_copy(n, dummy.unwrap()) { Ok(s) => ok_slice(s.as_ptr(), s.len()), Err(_) => Oc::Err } }
            8 => { let s = b.alloc_slice_fill_clone(n, &PC(dummy.unwrap())); ok_slice(s.as_ptr() as *const T, s.len()) }
            9 => match b.try_alloc_slice_fill_clone(n, &PC(dummy.unwrap())) { Ok(s) => ok_slice(s.as_ptr() as *const T, s.len()), Err(_) => Oc::Err },
            10 => { let s = b.alloc_slice_fill_default::<PD<T>>(n); ok_slice(s.as_ptr() as *const T, s.len()) }
            11 => match b.try_alloc_slice_fill_default::<PD<T>>(n) { Ok(s) => ok_slice(s.as_ptr() as *const T, s.len()), Err(_) => Oc::Err },
            12 => { let s = b.alloc_slice_fill_iter(LyingIter::<T> { n, _p: std::marker::PhantomData }); ok_slice(s.as_ptr(), s.len()) }
            13 => match b.try_alloc_slice_fill_iter(LyingIter::<T> { n, _p: std::marker::PhantomData }) { Ok(s) => ok_slice(s.as_ptr(), s.len()), Err(_) => Oc::Err },
            14 => match b.alloc_slice_try_fill_with::<T, _, ()>(n, |_| { let _g = Callback::enter(); injected_panic() }) { Ok(s) => ok_slice(s.as_ptr(), s.len()), Err(()) => Oc::Err },
            15 => match b.alloc_slice_try_fill_iter::<T, _, ()>(LyingIter::<Result<T, ()>> { n, _p: std::marker::PhantomData }) { Ok(s) => ok_slice(s.as_ptr(), s.len()), Err(()) => Oc::Err },
            16..=25 => {
                let mut v: BVec<T> = BVec::new_in(b1);
                let mut base_len = 0usize;
                if nonempty {
                    if let Some(d) = dummy {
                        for _ in 0..3 { v.push(d); }
                        base_len = 3;
                    } else {
                        v.reserve(3);
                    }
                }
                let vec_ok = |v: &BVec<T>, want_cap: u128, len_expected: u128| Oc::Ok { addr: v.as_ptr() as usize, bytes: v.capacity() as u128 * size as u128, len_after: v.len() as u128 + if (v.capacity() as u128) < want_cap { 1u128 << 100 } else { 0 }, len_expected };
                let o = match entry {
                    16 => { let v2: BVec<T> = BVec::with_capacity_in(n, b1); let o = vec_ok(&v2, n as u128, 0); std::mem::forget(v2); o }
                    17 => { v.reserve(n); vec_ok(&v, base_len as u128 + n as u128, base_len as u128) }
                    18 => { v.reserve_exact(n); vec_ok(&v, base_len as u128 + n as u128, base_len as u128) }
                    19 => match v.try_reserve(n) { Ok(()) => vec_ok(&v, base_len as u128 + n as u128, base_len as u128), Err(_) => Oc::Err },
                    20 => match v.try_reserve_exact(n) { Ok(()) => vec_ok(&v, base_len as u128 + n as u128, base_len as u128), Err(_) => Oc::Err },
                    21 => {
                        // resize to n: growth clones -> PC panics when space was reserved
                        let mut pv: BVec<PC<T>> = BVec::new_in(b1);
                        if nonempty { for _ in 0..3 { pv.push(PC(dummy.unwrap())); } }
                        let l0 = pv.len();
                        if n <= l0 + 1 { pv.resize(n, PC(dummy.unwrap())); let o = Oc::Ok { addr: pv.as_ptr() as usize, bytes: pv.capacity() as u128 * size as u128, len_after: pv.len() as u128, len_expected: n as u128 }; std::mem::forget(pv); o }
                        else { pv.resize(n, PC(dummy.unwrap())); std::mem::forget(pv); Oc::Reached }
                    }
                    22 => {
                        // zero-sized elements only
                        let sl: &[T] = unsafe { std::slice::from_raw_parts(std::ptr::NonNull::<T>::dangling().as_ptr(), n) };
                        v.extend_from_slice_copy(sl);
                        Oc::Ok { addr: v.as_ptr() as usize, bytes: 0, len_after: v.len() as u128, len_expected: base_len as u128 + n as u128 }
                    }
                    23 => {
                        let sl: &[T] = unsafe { std::slice::from_raw_parts(std::ptr::NonNull::<T>::dangling().as_ptr(), n) };
                        v.extend_from_slices_copy(&[sl, sl]);
                        Oc::Ok { addr: v.as_ptr() as usize, bytes: 0, len_after: v.len() as u128, len_expected: base_len as u128 + 2 * n as u128 }
                    }
                    24 => { unsafe { v.set_len(n) }; v.push(dummy.unwrap()); Oc::Ok { addr: v.as_ptr() as usize, bytes: 0, len_after: v.len() as u128, len_expected: n as u128 + 1 } }
                    _ => { unsafe { v.set_len(n) }; v.insert(0, dummy.unwrap()); Oc::Ok { addr: v.as_ptr() as usize, bytes: 0, len_after: v.len() as u128, len_expected: n as u128 + 1 } }
                };
                std::mem::forget(v);
                o
            }
            _ => Oc::Err,
        }
    });
    let oc = match r {
        Ok(o) => o,
        Err(PanicClass::Injected) => Oc::Reached,
        Err(p) => Oc::Panic(p),
    };
    let oc = judge_backing(envp, oc);
    let _ = arena_op(envp, 2, 0, &[], move || drop(b));
    oc
}

/// Vec capacity family for gigantic element types: no value of T is ever materialised.
fn run_vec_big<T: 'static>(envp: *mut ExecEnv, entry: u8, n: usize, nonempty: bool) -> Oc {
    let size = std::mem::size_of::<T>();
    let b: Bump<1> = arena_op(envp, 0, 0, &[], Bump::new).unwrap();
    let r = arena_op(envp, 1, 0, &[], || -> Oc {
        let mut v: BVec<T> = BVec::new_in(&b);
        let _ = nonempty;
        let vec_ok = |v: &BVec<T>, want_cap: u128| Oc::Ok { addr: v.as_ptr() as usize, bytes: v.capacity() as u128 * size as u128, len_after: v.len() as u128 + if (v.capacity() as u128) < want_cap { 1u128 << 100 } else { 0 }, len_expected: 0 };
        let o = match entry {
            16 => { let v2: BVec<T> = BVec::with_capacity_in(n, &b); let o = vec_ok(&v2, n as u128); std::mem::forget(v2); o }
            17 => { v.reserve(n); vec_ok(&v, n as u128) }
            18 => { v.reserve_exact(n); vec_ok(&v, n as u128) }
            19 => match v.try_reserve(n) { Ok(()) => vec_ok(&v, n as u128), Err(_) => Oc::Err },
            _ => match v.try_reserve_exact(n) { Ok(()) => vec_ok(&v, n as u128), Err(_) => Oc::Err },
        };
        std::mem::forget(v);
        o
    });
    let oc = match r {
        Ok(o) => o,
        Err(p) => Oc::Panic(p),
    };
    let oc = judge_backing(envp, oc);
    let _ = arena_op(envp, 2, 0, &[], move || drop(b));
    oc
}

/// An Ok outcome claiming `bytes` at `addr` must lie inside a block the arena holds.
fn judge_backing(envp: *mut ExecEnv, oc: Oc) -> Oc {
    if let Oc::Ok { addr, bytes, .. } = &oc {
        if *bytes > 0 {
            let fits = *bytes <= usize::MAX as u128 && unsafe { (*envp).block_containing(0, *addr, *bytes as usize).is_some() };
            if !fits {
                return Oc::Panic(PanicClass::Other(format!("UNBACKED: claims {} bytes at {:#x} which the arena does not hold", bytes, addr)));
            }
        }
    }
    oc
}

fn run_string(envp: *mut ExecEnv, entry: u8, n: usize, nonempty: bool) -> Oc {
    let b: Bump<1> = arena_op(envp, 0, 0, &[], Bump::new).unwrap();
    let r = arena_op(envp, 1, 0, &[], || -> Oc {
        let mut s = BString::new_in(&b);
        let mut base = 0u128;
        if nonempty {
            s.push_str("abc");
            base = 3;
        }
        let ok = |s: &BString, want: u128, len: u128| Oc::Ok { addr: s.as_ptr() as usize, bytes: s.capacity() as u128, len_after: s.len() as u128 + if (s.capacity() as u128) < want { 1u128 << 100 } else { 0 }, len_expected: len };
        let o = match entry {
            26 => { let s2 = BString::with_capacity_in(n, &b); let o = ok(&s2, n as u128, 0); std::mem::forget(s2); o }
            27 => { s.reserve(n); ok(&s, base + n as u128, base) }
            _ => { s.reserve_exact(n); ok(&s, base + n as u128, base) }
        };
        std::mem::forget(s);
        o
    });
    let oc = match r {
        Ok(o) => o,
        Err(p) => Oc::Panic(p),
    };
    let oc = judge_backing(envp, oc);
    let _ = arena_op(envp, 2, 0, &[], move || drop(b));
    oc
}

fn run_ctor<const M: usize>(envp: *mut ExecEnv, entry: u8, n: usize) -> Oc {
    let r = arena_op(envp, 1, 0, &[], || -> Result<Option<(usize, usize)>, ()> {
        let keep = |b: Bump<M>| {
            let cap = b.chunk_capacity();
            let held: usize = b.allocated_bytes();
            drop(b);
            Some((cap, held))
        };
        let from1 = |b: Bump<1>| -> Bump<M> {
            let r = unsafe { std::ptr::read(&b as *const Bump<1> as *const Bump<M>) };
            std::mem::forget(b);
            r
        };
        match entry {
            0 => match Bump::try_with_capacity(n) { Ok(b) => Ok(keep(from1(b))), Err(_) => Err(()) },
            1 => Ok(keep(from1(Bump::with_capacity(n)))),
            2 => match Bump::<M>::try_with_min_align_and_capacity(n) { Ok(b) => Ok(keep(b)), Err(_) => Err(()) },
            _ => Ok(keep(Bump::<M>::with_min_align_and_capacity(n))),
        }
    });
    match r {
        Ok(Ok(Some((cap, held)))) => {
            // an arena that claims capacity n must really hold that much
            if cap < n || held < n {
                Oc::Panic(PanicClass::Other(format!("UNBACKED: constructor with capacity {n} succeeded with chunk_capacity() {cap}, {held} bytes held")))
            } else {
                Oc::Ok { addr: 0, bytes: 0, len_after: 0, len_expected: 0 }
            }
        }
        Ok(Ok(None)) => Oc::Err,
        Ok(Err(())) => Oc::Err,
        Err(p) => Oc::Panic(p),
    }
}

pub fn run_case(envp: *mut ExecEnv, entry: u8, esz: u8, cnt: u8, m: u8, nonempty: bool, v: &mut Vec<Violation>) -> u64 {
    let size = elem_size(entry, esz);
    let align = elem_align(esz);
    let n = count_value(cnt, size, align);
    macro_rules! typed {
        ($T:ty, $d:expr) => {
            match m {
                1 => run_typed::<$T, 1>(envp, entry, n, nonempty, $d),
                2 => run_typed::<$T, 2>(envp, entry, n, nonempty, $d),
                4 => run_typed::<$T, 4>(envp, entry, n, nonempty, $d),
                8 => run_typed::<$T, 8>(envp, entry, n, nonempty, $d),
                _ => run_typed::<$T, 16>(envp, entry, n, nonempty, $d),
            }
        };
    }
    let oc = if entry <= 3 {
        match m {
            1 => run_ctor::<1>(envp, entry, n),
            2 => run_ctor::<2>(envp, entry, n),
            4 => run_ctor::<4>(envp, entry, n),
            8 => run_ctor::<8>(envp, entry, n),
            _ => run_ctor::<16>(envp, entry, n),
        }
    } else if entry >= 26 {
        run_string(envp, entry, n, nonempty)
    } else {
        match esz {
            0 => typed!((), Some(())),
            1 => typed!(u8, Some(7u8)),
            2 => typed!([u8; 3], Some([1u8, 2, 3])),
            3 => typed!(u64, Some(9u64)),
            4 => typed!([u8; 24], Some([5u8; 24])),
            5 if entry < 16 => typed!([u8; 4096], Some([3u8; 4096])),
            5 => run_vec_big::<[u8; (1 << 20) + 1]>(envp, entry, n, nonempty),
            _ => run_vec_big::<[u8; 1 << 40]>(envp, entry, n, nonempty),
        }
    };
    // ---- oracle
    let name = ENTRY_NAMES[entry as usize];
    let additive = matches!(entry, 17 | 18 | 19 | 20 | 27 | 28);
    let base: u128 = if nonempty && esz < 5 && (additive || entry == 22 || entry == 23) { 3 } else { 0 };
    let count_total: u128 = match entry {
        23 => base + 2 * n as u128,
        24 | 25 => n as u128 + 1,
        21 => n as u128,
        _ => base + n as u128,
    };
    let bytes_needed: u128 = count_total * size as u128;
    let count_overflows = count_total > usize::MAX as u128;
    let impossible = count_overflows || bytes_needed > isize::MAX as u128 || bytes_needed > (1u128 << 20);
    let fallible = entry_fallible(entry);
    let ctx = format!("{name}: element size {size}, count {n}{}, MIN_ALIGN {m}", if nonempty { " (container already holds 3)" } else { "" });
    let mut push = |clause: &'static str, key: String, detail: String| v.push(Violation { prop: 19, clause, key, detail, unsafe_mem: false });
    match &oc {
        Oc::Panic(PanicClass::Other(s)) if s.starts_with("UNBACKED") => push("unbacked_success", format!("unbacked_success/{name}"), format!("{ctx}: {s}")),
        Oc::Panic(p) => {
            if fallible {
                push("fallible_panicked", format!("fallible_panicked/{name}"), format!("{ctx}: fallible entry point panicked: {:?}", p));
            } else if !impossible && !matches!(p, PanicClass::Oom | PanicClass::CapacityOverflow | PanicClass::SizeOverflow | PanicClass::AllocError) {
                push("unexpected_panic", format!("unexpected_panic/{name}"), format!("{ctx}: {:?}", p));
            } else if let PanicClass::Assertion(s) = p {
                // an arithmetic-overflow / debug assertion instead of a clean refusal is still a panic (acceptable
                // for infallible methods), but record it in dbg builds as a distinct outcome
                let _ = s;
            }
        }
        Oc::Err => {}
        Oc::Reached => {
            if impossible && size > 0 {
                push("impossible_size_accepted", format!("impossible_size_accepted/{name}"), format!("{ctx}: needs {bytes_needed} bytes, yet space was reported reserved (the element initialiser ran)"));
            }
            if count_overflows {
                push("length_wrapped", format!("length_wrapped/{name}"), format!("{ctx}: element count {count_total} exceeds usize::MAX, yet the operation proceeded"));
            }
        }
        Oc::Ok { len_after, len_expected, .. } => {
            if impossible && size > 0 && !(entry <= 3) {
                push("impossible_size_accepted", format!("impossible_size_accepted/{name}"), format!("{ctx}: needs {bytes_needed} bytes, yet the call succeeded"));
            }
            if entry <= 3 && n > (1 << 20) {
                push("impossible_size_accepted", format!("impossible_size_accepted/{name}"), format!("{ctx}: capacity {n} cannot be satisfied, yet the constructor succeeded"));
            }
            if count_overflows {
                push("length_wrapped", format!("length_wrapped/{name}"), format!("{ctx}: mathematical element count {count_total} exceeds usize::MAX but the call returned normally (len afterwards {})", len_after & ((1u128 << 100) - 1)));
            } else if *len_after >= (1u128 << 100) {
                push("capacity_promise_broken", format!("capacity_promise_broken/{name}"), format!("{ctx}: returned normally with capacity below what was asked"));
            } else if len_after != len_expected {
                push("length_wrong", format!("length_wrong/{name}"), format!("{ctx}: length afterwards {len_after}, expected {len_expected}"));
            }
        }
    }
    let mut h = Hasher128::new();
    h.u(entry as u64);
    h.u(match &oc {
        Oc::Ok { .. } => 1,
        Oc::Err => 2,
        Oc::Reached => 3,
        Oc::Panic(PanicClass::Oom) => 4,
        Oc::Panic(PanicClass::CapacityOverflow) => 5,
        Oc::Panic(PanicClass::AllocError) => 6,
        Oc::Panic(_) => 7,
    });
    h.u(impossible as u64);
    let _ = classify_panic;
    h.finish64()
}

#[allow(dead_code)]
fn _z(_: Z, _: PanicClone<u8>) {}
