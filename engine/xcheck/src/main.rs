//! Cross-check of the bumpmc explorer with an independent, established explicit-state checker:
//! the arena model is wrapped as a `stateright::Model` (state = history + canonical key, equality and
//! hashing on the key only, `next_state` = re-execution) and explored with stateright's BFS to the same
//! depth with default allocator answers; the number of unique states must equal bumpmc's own count.

use bumpmc::arena::model::{ArenaModel, Cfg};
use bumpmc::arena::ops::Act;
use bumpmc::arena::Profile;
use bumpmc::mc::{self, Hist, Model as _, Step, Worker};
use bumpmc::{env, journal, util};
use stateright::{Checker, Model, Property};
use std::cell::RefCell;
use std::hash::{Hash, Hasher};

#[derive(Clone, Debug)]
struct XState {
    h: Hist<Cfg, Act>,
    key: u128,
    /// some oracle fired: the state is not expanded (same rule as bumpmc)
    bad: bool,
    /// an oracle fired that is not the recorded known finding
    alarm: bool,
    terminal: bool,
}
// A state reached by a violating or terminal (probe) transition is not expanded; the same key reached
// by an ordinary transition is. They are therefore distinct checker states; unique *keys* are counted
// separately for the comparison with bumpmc.
impl PartialEq for XState {
    fn eq(&self, o: &Self) -> bool {
        self.key == o.key && self.bad == o.bad && self.terminal == o.terminal
    }
}
impl Eq for XState {}
impl Hash for XState {
    fn hash<H: Hasher>(&self, s: &mut H) {
        self.key.hash(s);
        self.bad.hash(s);
        self.terminal.hash(s);
    }
}

fn alarm(out: &mc::RunOut<Act>) -> bool {
    out.violations.iter().any(|v| !v.key.starts_with("value_inside_result_slot_not_min_aligned"))
}

struct X {
    m: ArenaModel,
    depth: usize,
}

static KEYS: std::sync::Mutex<std::collections::BTreeMap<u128, Hist<Cfg, Act>>> = std::sync::Mutex::new(std::collections::BTreeMap::new());

thread_local! {
    static WORKER: RefCell<Option<Worker>> = const { RefCell::new(None) };
}

fn with_worker<R>(f: impl FnOnce(&mut Worker) -> R) -> R {
    WORKER.with(|w| {
        let mut w = w.borrow_mut();
        if w.is_none() {
            let mut wk = Worker { idx: 0, env: env::ExecEnv::new(8 << 20) };
            env::attach(&mut *wk.env as *mut env::ExecEnv);
            *w = Some(wk);
        }
        f(w.as_mut().unwrap())
    })
}

impl Model for X {
    type State = XState;
    type Action = Act;
    fn init_states(&self) -> Vec<XState> {
        self.m.configs().into_iter().map(|c| {
            let h = Hist::new(c);
            let out = with_worker(|w| self.m.run(w, &h, false));
            XState { h, key: out.key, bad: !out.violations.is_empty(), alarm: alarm(&out), terminal: out.terminal }
        }).collect()
    }
    fn actions(&self, s: &XState, actions: &mut Vec<Act>) {
        if s.bad || s.terminal || s.h.len as usize >= self.depth {
            return;
        }
        let out = with_worker(|w| self.m.run(w, &s.h, true));
        actions.extend(out.enabled);
    }
    fn next_state(&self, s: &XState, a: Act) -> Option<XState> {
        let h = s.h.push(Step::new(a));
        let out = with_worker(|w| self.m.run(w, &h, false));
        Some(XState { h, key: out.key, bad: !out.violations.is_empty(), alarm: alarm(&out), terminal: out.terminal })
    }
    fn within_boundary(&self, s: &XState) -> bool {
        if let Ok(mut g) = KEYS.lock() {
            if g.len() < 5_000_000 {
                g.insert(s.key, s.h);
            }
        }
        true
    }
    fn properties(&self) -> Vec<Property<Self>> {
        vec![Property::always("no oracle violation", |_, s: &XState| !s.alarm)]
    }
}

fn main() {
    let args: Vec<String> = std::env::args().collect();
    let get = |k: &str| args.iter().position(|a| a == k).and_then(|i| args.get(i + 1)).cloned();
    let depth: usize = get("--depth").map(|s| s.parse().unwrap()).unwrap_or(2);
    let profile = match get("--profile").as_deref() {
        Some("limit") => Profile::Limit,
        Some("reset") => Profile::Reset,
        Some("allocapi") => Profile::AllocApi,
        _ => Profile::Core,
    };
    let mas: Vec<u8> = get("--min-aligns").map(|s| s.split(',').map(|x| x.parse().unwrap()).collect()).unwrap_or(vec![1, 16]);
    util::install_panic_hook();
    util::init_pristine();
    env::init_region(40 * env::MAX_ARENAS * ((8 << 20) + env::SLAB_ALIGN));
    journal::install(None);
    let t0 = std::time::Instant::now();
    // bumpmc's own count
    let model = ArenaModel { profile, thorough: false, min_aligns: mas.clone(), max_depth: depth };
    let p = mc::Params { max_depth: depth, max_devs: 0, threads: 8, budget_s: 600.0, max_rss_bytes: 20 << 30, prop_mask: u32::MAX, slab_bytes: 8 << 20, emergency_out: None, max_violations: 10, skip: Default::default(), max_states_per_level: usize::MAX, keep_keys: true };
    let rep = mc::explore(&model, &p);
    // stateright's count
    let x = X { m: ArenaModel { profile, thorough: false, min_aligns: mas, max_depth: depth }, depth };
    let checker = x.checker().threads(8).spawn_bfs().join();
    let sr_unique = KEYS.lock().unwrap().len() as u64;
    let sr_checker_states = checker.unique_state_count() as u64;
    let discoveries = checker.discoveries().len();
    let known_only = rep.violations.iter().all(|v| v.v.key.starts_with("value_inside_result_slot_not_min_aligned"));
    let ok = sr_unique == rep.states && discoveries == 0 && known_only;
    if !ok {
        let mine: std::collections::HashSet<u128> = rep.keys.iter().copied().collect();
        let theirs = KEYS.lock().unwrap();
        let mut shown = 0;
        for (k, h) in theirs.iter() {
            if !mine.contains(k) && shown < 5 {
                eprintln!("only stateright: {}", model.describe(h));
                shown += 1;
            }
        }
        // find histories for keys only bumpmc reached (plain enumeration)
        let mut shown2 = 0;
        let mut stack: Vec<Hist<Cfg, Act>> = model.configs().into_iter().map(Hist::new).collect();
        while let Some(h) = stack.pop() {
            let out = with_worker(|w| model.run(w, &h, true));
            if !theirs.contains_key(&out.key) && shown2 < 5 {
                eprintln!("only bumpmc: {} viol={:?} terminal={}", model.describe(&h), out.violations.iter().map(|v| v.key.clone()).collect::<Vec<_>>(), out.terminal);
                shown2 += 1;
            }
            if (h.len as usize) < depth && out.violations.is_empty() && !out.terminal {
                for a in out.enabled {
                    stack.push(h.push(Step::new(a)));
                }
            }
        }
        let only_mine = mine.iter().filter(|k| !theirs.contains_key(k)).count();
        eprintln!("keys only in bumpmc: {}, only in stateright: {}", only_mine, theirs.keys().filter(|k| !mine.contains(k)).count());
    }
    let j = serde_json::json!({"profile": format!("{:?}", profile), "depth": depth, "bumpmc_states": rep.states, "bumpmc_level_sizes": rep.level_sizes, "bumpmc_transitions": rep.transitions,
        "stateright_unique_keys": sr_unique, "stateright_unique_states": sr_checker_states, "stateright_states_generated": checker.state_count(), "stateright_discoveries": discoveries, "agree": ok, "wall_s": t0.elapsed().as_secs_f64()});
    println!("{}", serde_json::to_string_pretty(&j).unwrap());
    std::process::exit(if ok { 0 } else { 3 });
}
