//! C20, schedules: loom explores every interleaving (at operation granularity: a yield between
//! operations) of 2–3 threads each driving its own arena, plus hand-over of an idle arena. The
//! crate's shared static empty chunk is represented by a loom UnsafeCell: the verif_hooks hook
//! performs a write access on it whenever a bookkeeping store targets the static, and every
//! operation on an arena that holds no memory performs a read access. loom's causality tracking
//! reports any pair of conflicting accesses not ordered by happens-before (a data race).

use bumpalo::Bump;
use loom::cell::UnsafeCell;
use loom::sync::{Arc, Mutex};
use std::cell::RefCell;
use std::panic::{catch_unwind, AssertUnwindSafe};
use std::sync::atomic::{AtomicUsize, Ordering};

thread_local! {
    // loom threads are coroutines on ONE OS thread: this thread-local is shared by all of them
    static STATIC_CELL: RefCell<Option<Arc<UnsafeCell<u64>>>> = const { RefCell::new(None) };
}
static EXECS: AtomicUsize = AtomicUsize::new(0);
static STATIC_STORES: AtomicUsize = AtomicUsize::new(0);

fn hook(footer: *const u8, _site: u8) {
    if footer == bumpalo::verif_hooks::empty_chunk_addr() {
        STATIC_STORES.fetch_add(1, Ordering::Relaxed);
        let c = STATIC_CELL.with(|c| c.borrow().clone());
        if let Some(c) = c {
            c.with_mut(|_| {});
        }
    }
}

fn touch_static_read() {
    let c = STATIC_CELL.with(|c| c.borrow().clone());
    if let Some(c) = c {
        c.with(|_| {});
    }
}

/// One arena plus a loom cell standing for "this arena's memory": every operation is a write
/// access to it, so an arena used from two threads without synchronisation would be reported too.
struct Arena {
    b: Bump,
    mem: Option<UnsafeCell<u64>>,
    trace: Vec<u64>,
}

#[derive(Clone, Copy, Debug)]
enum Op {
    Zst,
    ZstAligned,
    A64,
    Big,
    Reset,
    Limit,
}

impl Arena {
    fn new() -> Arena {
        touch_static_read(); // a new arena points at the shared static
        Arena { b: Bump::new(), mem: Some(UnsafeCell::new(0)), trace: Vec::new() }
    }
    fn op(&mut self, op: Op) {
        if let Some(m) = &self.mem {
            m.with_mut(|_| {});
        }
        if self.b.allocated_bytes() == 0 {
            touch_static_read(); // operations of a chunk-less arena read the shared static
        }
        let before_cap = self.b.chunk_capacity();
        let r: u64 = match op {
            Op::Zst => {
                let p = self.b.alloc(()) as *mut () as usize;
                (p % 16) as u64
            }
            Op::ZstAligned => {
                let p = self.b.alloc_layout(std::alloc::Layout::from_size_align(0, 8).unwrap()).as_ptr() as usize;
                (p % 8) as u64
            }
            Op::A64 => {
                let x = self.b.alloc(0x1122334455667788u64);
                *x ^ 1
            }
            Op::Big => self.b.alloc_layout(std::alloc::Layout::from_size_align(5000, 1).unwrap()).as_ptr() as usize as u64 % 1,
            Op::Reset => {
                self.b.reset();
                7
            }
            Op::Limit => {
                self.b.set_allocation_limit(Some(1 << 20));
                9
            }
        };
        self.trace.push(r);
        self.trace.push(before_cap as u64);
        self.trace.push(self.b.chunk_capacity() as u64);
        self.trace.push(self.b.allocated_bytes() as u64);
        self.trace.push(self.b.allocated_bytes_including_metadata() as u64);
    }
}

fn solo(ops: &[Op]) -> Vec<u64> {
    let mut a = Arena { b: Bump::new(), mem: None, trace: Vec::new() };
    for o in ops {
        a.op(*o);
    }
    a.trace
}

struct Body {
    name: &'static str,
    /// per thread: operations on its own arena
    threads: Vec<Vec<Op>>,
    /// thread 0 creates + runs its ops, hands the idle arena to thread 1 which continues with its ops on the SAME arena
    handover: bool,
}

fn bodies(thorough: bool) -> Vec<Body> {
    use Op::*;
    let mut v = vec![
        Body { name: "2x(new;zst)", threads: vec![vec![Zst], vec![Zst]], handover: false },
        Body { name: "2x(new;zst_aligned;zst)", threads: vec![vec![ZstAligned, Zst], vec![ZstAligned, Zst]], handover: false },
        Body { name: "2x(new;alloc64;zst)", threads: vec![vec![A64, Zst], vec![A64, Zst]], handover: false },
        Body { name: "new;zst || new;alloc64", threads: vec![vec![Zst], vec![A64]], handover: false },
        Body { name: "2x(new;reset;drop)", threads: vec![vec![Reset], vec![Reset]], handover: false },
        Body { name: "2x(new;alloc64;big;reset)", threads: vec![vec![A64, Big, Reset], vec![A64, Big, Reset]], handover: false },
        Body { name: "2x(new;limit;alloc64)", threads: vec![vec![Limit, A64], vec![Limit, A64]], handover: false },
        Body { name: "handover(new;alloc64 -> zst;big;drop)", threads: vec![vec![A64], vec![Zst, Big]], handover: true },
        Body { name: "handover(new -> zst;alloc64;drop)", threads: vec![vec![], vec![Zst, A64]], handover: true },
        Body { name: "3x(new;zst)", threads: vec![vec![Zst], vec![Zst], vec![Zst]], handover: false },
        Body { name: "3x(new;alloc64)", threads: vec![vec![A64], vec![A64], vec![A64]], handover: false },
    ];
    if thorough {
        v.push(Body { name: "2x(new;zst;alloc64;reset;zst)", threads: vec![vec![Zst, A64, Reset, Zst], vec![Zst, A64, Reset, Zst]], handover: false });
        v.push(Body { name: "3x(new;alloc64;reset)", threads: vec![vec![A64, Reset], vec![A64, Reset], vec![A64, Reset]], handover: false });
        v.push(Body { name: "3x(new;zst;alloc64)", threads: vec![vec![Zst, A64], vec![Zst, A64], vec![Zst, A64]], handover: false });
        v.push(Body { name: "handover chain of 3", threads: vec![vec![A64], vec![Zst, Reset], vec![Zst]], handover: true });
    }
    v
}

fn run_body(b: &Body) -> Result<usize, String> {
    EXECS.store(0, Ordering::SeqCst);
    let solos: Vec<Vec<u64>> = if b.handover { vec![solo(&b.threads.iter().flatten().copied().collect::<Vec<_>>())] } else { b.threads.iter().map(|t| solo(t)).collect() };
    let threads = b.threads.clone();
    let handover = b.handover;
    let mismatch = std::sync::Arc::new(std::sync::Mutex::new(None::<String>));
    let mm = mismatch.clone();
    let r = catch_unwind(AssertUnwindSafe(|| {
        let mut builder = loom::model::Builder::new();
        builder.preemption_bound = None;
        builder.check(move || {
            EXECS.fetch_add(1, Ordering::Relaxed);
            STATIC_CELL.with(|c| *c.borrow_mut() = Some(Arc::new(UnsafeCell::new(0))));
            if handover {
                // a chain: thread i waits for the arena in slot i, uses it, puts it into slot i+1
                let n = threads.len();
                let slots: Vec<Arc<Mutex<Option<Arena>>>> = (0..=n).map(|_| Arc::new(Mutex::new(None))).collect();
                *slots[0].lock().unwrap() = Some(Arena::new());
                let mut hs = Vec::new();
                for (i, ops) in threads.iter().cloned().enumerate() {
                    let from = slots[i].clone();
                    let to = slots[i + 1].clone();
                    hs.push(loom::thread::spawn(move || loop {
                        let got = from.lock().unwrap().take();
                        match got {
                            Some(mut a) => {
                                for o in &ops {
                                    a.op(*o);
                                    loom::thread::yield_now();
                                }
                                *to.lock().unwrap() = Some(a);
                                break;
                            }
                            None => loom::thread::yield_now(),
                        }
                    }));
                }
                for h in hs {
                    h.join().unwrap();
                }
                let a = slots[n].lock().unwrap().take().expect("arena arrives at the end of the chain");
                if a.trace != solos[0] {
                    *mm.lock().unwrap() = Some(format!("handed-over arena's trace {:?} differs from the same operations on one thread {:?}", a.trace, solos[0]));
                }
                drop(a); // dropped on the main thread after travelling
            } else {
                let mut hs = Vec::new();
                for ops in threads.iter().cloned() {
                    hs.push(loom::thread::spawn(move || {
                        let mut a = Arena::new();
                        for o in &ops {
                            loom::thread::yield_now();
                            a.op(*o);
                        }
                        let t = std::mem::take(&mut a.trace);
                        drop(a);
                        t
                    }));
                }
                for (i, h) in hs.into_iter().enumerate() {
                    let t = h.join().unwrap();
                    if t != solos[i] {
                        *mm.lock().unwrap() = Some(format!("thread {i}: trace {:?} differs from the same operations run alone {:?}", t, solos[i]));
                    }
                }
            }
            STATIC_CELL.with(|c| *c.borrow_mut() = None);
        });
    }));
    match r {
        Ok(()) => {
            if let Some(m) = mismatch.lock().unwrap().take() {
                return Err(format!("TRACE {m}"));
            }
            Ok(EXECS.load(Ordering::SeqCst))
        }
        Err(p) => {
            // a failing execution leaves loom objects in the thread-local: leak them
            STATIC_CELL.with(|c| std::mem::forget(c.borrow_mut().take()));
            let msg = if let Some(s) = p.downcast_ref::<String>() { s.clone() } else if let Some(s) = p.downcast_ref::<&'static str>() { s.to_string() } else { "panic".into() };
            Err(format!("LOOM {}", msg.chars().take(300).collect::<String>()))
        }
    }
}

fn main() {
    let args: Vec<String> = std::env::args().collect();
    let get = |k: &str| args.iter().position(|a| a == k).and_then(|i| args.get(i + 1)).cloned();
    if std::env::var("C20_DEBUG").is_err() { std::panic::set_hook(Box::new(|_| {})); }
    bumpalo::verif_hooks::set_footer_store_hook(Some(hook));
    let thorough = get("--tier").map(|t| t == "thorough").unwrap_or(false);
    let all = bodies(true);
    let t0 = std::time::Instant::now();
    if args.get(1).map(|s| s.as_str()) == Some("replay") {
        let idx = usize::from_str_radix(&get("--hex").unwrap(), 16).unwrap();
        let b = &all[idx];
        println!("{}", serde_json::json!({"replaying": {"body": b.name}}));
        let viol = match run_body(b) {
            Ok(_) => vec![],
            Err(m) => vec![violation(b, &m)],
        };
        println!("{}", serde_json::to_string_pretty(&serde_json::json!({"history": {"body": b.name}, "trace": [], "violations": viol})).unwrap());
        return;
    }
    let n = bodies(thorough).len();
    let mut total = 0usize;
    let mut viols = Vec::new();
    let mut per = Vec::new();
    for (i, b) in all.iter().enumerate().take(n) {
        match run_body(b) {
            Ok(e) => {
                total += e;
                per.push(serde_json::json!({"body": b.name, "schedules": e, "threads": b.threads.len()}));
            }
            Err(m) => {
                let mut v = violation(b, &m);
                v["hist_hex"] = serde_json::json!(format!("{:02x}", i));
                v["history"] = serde_json::json!({"body": b.name, "threads": format!("{:?}", b.threads), "handover": b.handover});
                viols.push(v);
                per.push(serde_json::json!({"body": b.name, "schedules": EXECS.load(Ordering::SeqCst), "failed": true}));
            }
        }
    }
    let j = serde_json::json!({
        "states": total, "transitions": total, "executions": total, "distinct_outcomes": per.len(), "depth_completed": 0, "level_sizes": [], "caps_hit": [],
        "coverage_events": {"stores_into_shared_static_seen": STATIC_STORES.load(Ordering::SeqCst)}, "violations": viols, "violations_total": viols.len(), "skipped_crash": 0,
        "samples": per.iter().take(3).cloned().collect::<Vec<_>>(), "wall_s": t0.elapsed().as_secs_f64(),
        "extra": {"engine": "c20_loom", "loom": "0.7 (DPOR, no preemption bound)", "bodies": per},
    });
    let out = get("--out").unwrap_or("/dev/stdout".into());
    std::fs::write(out, serde_json::to_string_pretty(&j).unwrap()).unwrap();
}

fn violation(b: &Body, m: &str) -> serde_json::Value {
    let (clause, key) = if m.starts_with("LOOM") {
        if m.contains("Causality violation") || m.contains("oncurrent") { ("data_race", format!("data_race/shared_static")) } else { ("loom_failure", format!("loom_failure/{}", b.name)) }
    } else {
        ("trace_depends_on_schedule", "trace_depends_on_schedule".to_string())
    };
    serde_json::json!({"property": "C20", "clause": clause, "key": key, "detail": format!("body `{}`: {}", b.name, m)})
}
